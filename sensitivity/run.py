#!/venv/bin/python
"""Apply each mutant / control to a scratch copy of /repo/src (under /dev/shm)
and run the quick check of the property it targets against that copy
(VERIF_REPO).  A mutant must be reported (exit 1 + VIOLATION); a control must
stay green.  Usage: run.py [name-substring ...] [--n N] [--all-props]
"""
import json
import os
import shutil
import subprocess
import sys
import time

HERE = os.path.dirname(os.path.abspath(__file__))
sys.path.insert(0, HERE)
import mutants as M  # noqa: E402

VERIF = os.path.dirname(HERE)
REPO = '/repo'
PY = '/venv/bin/python'


def apply(name, spec, dst):
    shutil.rmtree(dst, ignore_errors=True)
    os.makedirs(dst)
    shutil.copytree(os.path.join(REPO, 'src'), os.path.join(dst, 'src'),
                    ignore=shutil.ignore_patterns('__pycache__'))
    for rel, old, new in spec['edits']:
        p = os.path.join(dst, rel)
        s = open(p).read()
        if old not in s:
            raise SystemExit('mutant %s: anchor text not found in %s' % (name, rel))
        s = s.replace(old, new, 1)
        open(p, 'w').write(s)
    # must still compile
    subprocess.check_call([PY, '-m', 'compileall', '-q', os.path.join(dst, 'src', 'xdoctest')],
                          stdout=subprocess.DEVNULL)


def run_check(prop, dst, n):
    env = dict(os.environ, VERIF_REPO=dst, VERIF_EVIDENCE_DIR=os.path.join(dst, 'evidence'),
               VERIF_REPLAY_DIR=os.path.join(dst, 'replays'))
    cmd = [PY, os.path.join(VERIF, 'sim', 'cli.py'), 'check', prop]
    if n:
        cmd += ['--n', str(n)]
    t0 = time.time()
    p = subprocess.run(cmd, env=env, stdout=subprocess.PIPE, stderr=subprocess.STDOUT, text=True, timeout=1800)
    return p.returncode, p.stdout, time.time() - t0


def main():
    args = [a for a in sys.argv[1:] if not a.startswith('--')]
    n = None
    for a in sys.argv[1:]:
        if a.startswith('--n='):
            n = int(a[4:])
    props_all = '--all-props' in sys.argv
    results = []
    table = dict(M.MUTANTS)
    table.update(getattr(M, 'CONTROLS', {}))
    for name, spec in table.items():
        if args and not any(a in name for a in args):
            continue
        dst = '/dev/shm/xdmut-%s' % name
        try:
            apply(name, spec, dst)
            props = [spec['prop']] if spec.get('prop') else spec.get('run', [])
            if props_all or spec.get('prop') is None:
                props = spec.get('run') or ['C01', 'C02', 'C03', 'C04', 'C09', 'C10', 'C11', 'C12']
            for prop in props:
                rc, outp, wall = run_check(prop, dst, n)
                rules = sorted(set(l.split()[1].rstrip(':') for l in outp.splitlines() if l.startswith('  rule ')))
                first = [l for l in outp.splitlines() if l.startswith('  rule ')][:1]
                expected = 1 if spec.get('prop') else 0
                ok = (rc == expected)
                results.append({'mutant': name, 'check': prop, 'rc': rc, 'rules': rules, 'ok': ok,
                                'wall_s': round(wall, 1), 'first': first[0].strip()[:300] if first else ''})
                print('%-45s %-4s rc=%d %-8s %s %5.1fs  %s' % (name, prop, rc, 'OK' if ok else 'MISSED' if expected else 'FALSE-ALARM',
                                                         ','.join(rules), wall, (first[0].strip()[:140] if first else '')))
                if rc == 2:
                    print(outp[-2000:])
                sys.stdout.flush()
        finally:
            shutil.rmtree(dst, ignore_errors=True)
    with open(os.path.join(HERE, 'last_results.json'), 'w') as f:
        json.dump(results, f, indent=1)


if __name__ == '__main__':
    main()
