"""Property-breaking, suite-passing edits ("mutants") and behaviour-preserving
refactorings ("controls") used to measure sensitivity and false alarms.

Each entry: name -> dict(prop=<property the check must catch it with, or None
for a control>, edits=[(path relative to the repo, old text, new text)], why=...)

They are applied to a scratch copy of /repo/src (never to /repo) by run.py.
"""

DE = 'src/xdoctest/doctest_example.py'
US = 'src/xdoctest/utils/util_stream.py'
UI = 'src/xdoctest/utils/util_import.py'
DI = 'src/xdoctest/directive.py'
CH = 'src/xdoctest/checker.py'
DP = 'src/xdoctest/doctest_part.py'
PA = 'src/xdoctest/parser.py'
RU = 'src/xdoctest/runner.py'
MA = 'src/xdoctest/__main__.py'

MUTANTS = {
    'c09_revert_f7': dict(prop='C09', edits=[(CH,
        """            elif got:
                # The want normalizes to nothing (e.g. it only consists of
                # <BLANKLINE> markers), but something was written.
                if colored:""",
        """            elif got:
                raise AssertionError('impossible state')
                if colored:""")],
        why='re-introduces F7: a want that normalises to nothing cannot be rendered'),
    'c09_revert_f8': dict(prop='C09', edits=[(CH,
        """                try:
                    got = repr(got_eval)
                except Exception as ex:
                    raise ExtractGotReprException('Error calling repr for {}. Caused by: {!r}'.format(type(got_eval), ex), ex)
                flag = check_output(got, want, runstate)
                if not flag:
                    got = got_stdout""",
        """                got = repr(got_eval)
                flag = check_output(got, want, runstate)
                if not flag:
                    got = got_stdout""")],
        why='re-introduces F8: unguarded repr() in the stdout-and-value fallback'),
    'c04_revert_f9': dict(prop='C04', edits=[(DI,
        """                         for line in text.splitlines() if line.strip())""",
        """                         for line in text.splitlines())""")],
        why='re-introduces F9: blank prompt lines turn a block directive into an inline one'),
    'c12_revert_f10': dict(prop='C12', edits=[(UI,
        """                sys.path.pop(real_index)
                warnings.warn('\\n'.join(msg_parts))""",
        """                warnings.warn('\\n'.join(msg_parts))
                sys.path.pop(real_index)""")],
        why='re-introduces F10: the sys.path-changed warning is raised (under -W error) before the temporary entry is removed'),
    # ------------------------------------------------------------------ C01
    'c01_no_expandtabs': dict(prop='C01', edits=[(PA,
        """        string = string.expandtabs()""",
        """        string = string""")],
        why='P4: tab-indented docstrings are no longer normalised'),
    'c01_log_part_pos_not_advanced': dict(prop='C01', edits=[(US,
        """        self._pos = self.cap_stdout.tell()
        self.parts.append(text)""",
        """        self.parts.append(text)""")],
        why='every part re-reads the capture from the start: recorded stdout is duplicated'),
    'c01_coroutine_created_not_run': dict(prop='C01', edits=[(DE,
        """                                else:
                                    asyncio.run(eval(code, test_globals))""",
        """                                else:
                                    eval(code, test_globals).close()""")],
        why='exec-mode parts with top-level await: the coroutine is created but never driven'),
    'c01_namespace_per_part': dict(prop='C01', edits=[(DE,
        """                            else:
                                exec(code, test_globals)""",
        """                            else:
                                exec(code, dict(test_globals))""")],
        why='exec-mode parts run in a copy of the namespace: bindings do not reach later parts'),
    # ------------------------------------------------------------------ C12
    'c12_stop_only_on_exception': dict(prop='C12', edits=[(US,
        """            try:
                self.log_part()
            except Exception:  # nocover
                raise
            finally:
                self.stop()""",
        """            self.log_part()
            if type_ is None or issubclass(type_, Exception):
                self.stop()""")],
        why='capture not undone when a BaseException (KeyboardInterrupt/SystemExit) propagates'),
    'c12_stop_restores_tee': dict(prop='C12', edits=[(US,
        """            self.started = False
            sys.stdout = self.orig_stdout""",
        """            self.started = False
            if sys.stdout is self.cap_stdout:
                sys.stdout = self.orig_stdout""")],
        why='stdout only restored if the doctest did not replace sys.stdout itself'),
    'c12_no_catch_warnings': dict(prop='C12', edits=[(DE,
        """        with warnings.catch_warnings(record=True) as self.warn_list:
            for partx, part in enumerate(self._parts):""",
        """        self.warn_list = []
        if True:
            for partx, part in enumerate(self._parts):""")],
        why='warning filters changed by doctest code leak'),
    'c12_syspath_pop_only_on_success': dict(prop='C12', edits=[(UI,
        """    try:
        with PythonPathContext(dpath, index=index):
            module = import_module_from_name(modname)
    except Exception as ex:  # nocover""",
        """    try:
        ctx = PythonPathContext(dpath, index=index)
        ctx.__enter__()
        module = import_module_from_name(modname)
        ctx.__exit__(None, None, None)
    except Exception as ex:  # nocover""")],
        why='temporary sys.path entry left behind when the import fails'),
    'c12_syspath_pop_wrong_index': dict(prop='C12', edits=[(UI,
        """                sys.path.pop(real_index)
                warnings.warn('\\n'.join(msg_parts))""",
        """                sys.path.pop(self.index)
                warnings.warn('\\n'.join(msg_parts))""")],
        why='recovery branch removes somebody else\'s entry'),
    'c12_manual_filter_restore_no_finally': dict(prop='C12', edits=[(DE,
        """        with warnings.catch_warnings(record=True) as self.warn_list:
            for partx, part in enumerate(self._parts):""",
        """        self.warn_list = []
        _saved_filters = warnings.filters[:]
        if True:
            for partx, part in enumerate(self._parts):"""), (DE,
        """        if self.exc_info is None:
            self.failed_part = None

        if len(self._skipped_parts) == len(self._parts):""",
        """        warnings.filters[:] = _saved_filters
        if self.exc_info is None:
            self.failed_part = None

        if len(self._skipped_parts) == len(self._parts):""")],
        why='filters restored only when run() reaches its end (not on propagation)'),

    # ------------------------------------------------------------------ C02
    'c02_keep_only_last_unmatched': dict(prop='C02', edits=[(DE,
        """                            self._unmatched_stdout.append(cap.text)""",
        """                            self._unmatched_stdout = [cap.text]""")],
        why='E16: accumulated output of want-less parts lost -> false failures'),
    'c02_continue_after_mismatch': dict(prop='C02', edits=[(DE,
        """                except checker.GotWantException:
                    # When the "got", doesn't match the "want"
                    self.exc_info = sys.exc_info()
                    if on_error == 'raise':
                        raise
                    break""",
        """                except checker.GotWantException:
                    # When the "got", doesn't match the "want"
                    if self.exc_info is None:
                        self.exc_info = sys.exc_info()
                        self._first_failed_part = part
                    if on_error == 'raise':
                        raise
                    continue""")],
        why='M28: statements after a failing want still run'),
    'c02_str_instead_of_repr': dict(prop='C02', edits=[(CH,
        """            try:
                got = repr(got_eval)
            except Exception as ex:""",
        """            try:
                got = str(got_eval)
            except Exception as ex:""")],
        why='K4: value compared by str()'),
    'c02_comment_only_passes': dict(prop='C02', edits=[(DE,
        """                if not part.has_any_code():
                    if DEBUG:
                        print(f'part[{partx}] No code, skipping')
                    self._skipped_parts.append(part)
                    continue""",
        """                if not part.has_any_code():
                    continue""")],
        why='E2: a doctest in which nothing ran counts as passed'),
    'c02_unmatched_not_cleared_after_match': dict(prop='C02', edits=[(DE,
        """                            # Clear unmatched output when a check passes
                            self._unmatched_stdout = []""",
        """                            # Clear unmatched output when a check passes
                            pass""")],
        why='window not cleared: a later want can be satisfied by stale output only in odd cases; '
            'mostly harmless by the trailing-sequence rule -> expected to be hard to see'),

    # ------------------------------------------------------------------ C03
    'c03_bare_raise_return_true': dict(prop='C03', edits=[(CH,
        """    if exc_want is None:
        # Reraise the error if the want message is formatted like an exception
        raise""",
        """    if exc_want is None:
        return True""")],
        why='exception + non-traceback want silently passes'),
    'c03_break_after_expected_exception': dict(prop='C03', edits=[(DE,
        """                            want = part.want
                            checker.check_exception(exc_got, want, runstate)
                        else:
                            raise""",
        """                            want = part.want
                            checker.check_exception(exc_got, want, runstate)
                            break
                        else:
                            raise""")],
        why='statements after an expected exception no longer run'),
    'c03_strip_details_drops_class': dict(prop='C03', edits=[(CH,
        """    return msg[start: end]""",
        """    return ''""")],
        why='IGNORE_EXCEPTION_DETAIL no longer compares the class'),
    'c03_ied_always_on': dict(prop='C03', edits=[(CH,
        """    if not flag and runstate['IGNORE_EXCEPTION_DETAIL']:""",
        """    if not flag:""")],
        why='the message is ignored even without IGNORE_EXCEPTION_DETAIL'),
    'c03_ignore_want_hides_exception': dict(prop='C03', edits=[(DE,
        """                    except Exception:
                        if part.want:
                            # A failure may be expected""",
        """                    except Exception:
                        if part.want and runstate['IGNORE_WANT']:
                            pass
                        elif part.want:
                            # A failure may be expected""")],
        why='IGNORE_WANT swallows any exception of a statement that has a want'),

    # ------------------------------------------------------------------ C09
    'c09_revert_f1': dict(prop='C09', edits=[(DE,
        """                            if 0 < tb_lineno <= len(orig_lines):
                                failed_ctx = orig_lines[tb_lineno - 1]""",
        """                            if True:
                                failed_ctx = orig_lines[tb_lineno - 1]""")],
        why='finding F1 back'),
    'c09_revert_f4': dict(prop='C09', edits=[(DE,
        """                    self.failed_tb_lineno = getattr(ex_value, 'lineno', None) or 1
                    if on_error == 'raise':
                        raise
                    break""",
        """                    self.failed_tb_lineno = getattr(ex_value, 'lineno', None) or 1
                    raise""")],
        why='finding F4 back'),
    'c09_generic_handler_narrowed': dict(prop='C09', edits=[(DE,
        """                except Exception as _ex_dbg:
                    ex_type, ex_value, tb = sys.exc_info()""",
        """                except (ValueError, KeyError, AssertionError, ZeroDivisionError, RuntimeError,
                        TypeError, NameError, AttributeError, IndexError, OSError) as _ex_dbg:
                    ex_type, ex_value, tb = sys.exc_info()""")],
        why='uncommon exception classes (MemoryError, custom) escape on_error=return'),
    'c09_gotrepr_reraises': dict(prop='C09', edits=[(DE,
        """                    self.exc_info = sys.exc_info()
                    if on_error == 'raise':
                        raise ex.orig_ex
                    break""",
        """                    self.exc_info = sys.exc_info()
                    raise ex.orig_ex""")],
        why='a repr that raises escapes'),
    'c09_runner_raises_for_single': dict(prop='C09', edits=[(RU,
        """    on_error = 'return' if n_total > 1 else 'raise'
    on_error = 'return'
""",
        """    on_error = 'return' if n_total > 1 else 'raise'
""")],
        why='native run of a module with one doctest propagates its failure'),
    'c09_import_error_only_importerror': dict(prop='C09', edits=[(DE,
        """                    try:
                        self._import_module()
                    except Exception:""",
        """                    try:
                        self._import_module()
                    except ImportError:""")],
        why='module import failing with RuntimeError(wrapped) escapes'),
    'c09_failed_lineno_innermost_frame': dict(prop='C09', edits=[(DE,
        """                            found_lineno = sub_tb.tb_lineno
                            break""",
        """                            found_lineno = sub_tb.tb_lineno""")],
        why='E4: failing line taken from the innermost doctest frame (helper) instead of the calling statement'),

    # ------------------------------------------------------------------ C10
    'c10_nfailed_off_by_one': dict(prop='C10', edits=[(RU,
        """    n_failed = sum(s['failed'] for s in summaries)""",
        """    n_failed = sum(s['failed'] for s in summaries[:-1]) if len(summaries) > 2 else sum(s['failed'] for s in summaries)""")],
        why='the last doctest of a module with 3+ doctests is not counted when it fails'),
    'c10_exit_status_from_passed': dict(prop='C10', edits=[(MA,
        """    n_failed = run_summary.get('n_failed', 0)
    if n_failed > 0:
        return 1""",
        """    n_failed = run_summary.get('n_failed', 0)
    n_passed = run_summary.get('n_passed', 0)
    if n_failed > 0 and n_passed == 0:
        return 1""")],
        why='exit status 0 when something passed although something failed'),
    'c10_disabled_filter_on_named': dict(prop='C10', edits=[(RU,
        """                if gather_all and example.is_disabled():
                    continue""",
        """                if example.is_disabled():
                    continue""")],
        why='naming a force-disabled doctest no longer runs it'),
    'c10_summaries_appended_twice_on_skip': dict(prop='C10', edits=[(RU,
        """            if summary['skipped']:
                pass""",
        """            if summary['skipped']:
                summaries.append(summary)""")],
        why='skipped doctests are counted twice'),
    'c10_failed_list_dedup_by_callname': dict(prop='C10', edits=[(RU,
        """            else:
                failed.append(example)""",
        """            else:
                if not any(f.callname == example.callname for f in failed):
                    failed.append(example)""")],
        why='two failing doctests of the same callable appear once in the failed list'),
    'c10_named_prefix_match': dict(prop='C10', edits=[(RU,
        """            if gather_all or command in example.valid_testnames:""",
        """            if gather_all or any(n.startswith(command) for n in example.valid_testnames):""")],
        why='naming f1 also runs f10 / K0 also runs K0.meth0'),

    # ------------------------------------------------------------------ C11
    'c11_namespace_not_cleared': dict(prop='C11', edits=[(DE,
        """        # Clear the global namespace so doctests don't leak memory
        self.global_namespace.clear()""",
        """        # Clear the global namespace so doctests don't leak memory
        pass""")],
        why='E7: names of a previous run of the same object stay visible'),
    'c11_unmatched_not_reset': dict(prop='C11', edits=[(DE,
        """        self.logged_stdout.clear()
        self._unmatched_stdout = []
""",
        """        self.logged_stdout.clear()
""")],
        why='E14: want-less tail output of the previous run can satisfy a want of the next run of the same object'),
    'c11_shallow_copy_defaults': dict(prop='C11', edits=[(DI,
        """        self._global_state = copy.deepcopy(DEFAULT_RUNTIME_STATE)""",
        """        self._global_state = copy.copy(DEFAULT_RUNTIME_STATE)""")],
        why='the REQUIRES set of the module-level default is shared by all runs'),
    'c11_module_dict_as_namespace': dict(prop='C11', edits=[(DE,
        """            test_globals.update(self.module.__dict__)""",
        """            test_globals = self.global_namespace = self.module.__dict__""")],
        why='doctest assignments rebind module globals and are visible to other doctests'),
    'c11_runstate_reused_across_runs': dict(prop='C11', edits=[(DE,
        """        runstate = self._runstate = directive.RuntimeState(default_state)""",
        """        if self._runstate is None:
            self._runstate = directive.RuntimeState(default_state)
        runstate = self._runstate""")],
        why='directive state of the previous run of the same object (SKIP, REQUIRES, flags) carries over'),
    'c11_config_default_state_mutated': dict(prop='C11', edits=[(DI,
        """        self._global_state = copy.deepcopy(DEFAULT_RUNTIME_STATE)
        if default_state:
            self._global_state.update(default_state)""",
        """        if default_state is None:
            default_state = {}
        for k, v in copy.deepcopy(DEFAULT_RUNTIME_STATE).items():
            default_state.setdefault(k, v)
        self._global_state = default_state""")],
        why='the config dict shared by reference between examples becomes the live runtime state'),

    # ------------------------------------------------------------------ C04
    'c04_revert_f2': dict(prop='C04', edits=[(DI,
        """                    if key not in state:
                        # An inline directive only impacts the current line:
                        # modify a copy of the persistent set.
                        state[key] = set(self._global_state[key])""",
        """                    if key not in state and False:
                        state[key] = set(self._global_state[key])""")],
        why='finding F2 back'),
    'c04_overlay_not_cleared': dict(prop='C04', edits=[(DI,
        """        # Clear the previous inline state
        self._inline_state.clear()""",
        """        # Clear the previous inline state
        if any(d.inline for d in directives):
            self._inline_state.clear()""")],
        why='an inline directive stays in force until the next inline directive'),
    'c04_inline_written_to_persistent': dict(prop='C04', edits=[(DI,
        """                if directive.inline:
                    state = self._inline_state
                else:
                    state = self._global_state""",
        """                if directive.inline and key != 'IGNORE_WANT':
                    state = self._inline_state
                else:
                    state = self._global_state""")],
        why='inline IGNORE_WANT becomes persistent'),
    'c04_requires_ignored_by_skip_test': dict(prop='C04', edits=[(DE,
        """                if runstate['SKIP'] or len(runstate['REQUIRES']) > 0:""",
        """                if runstate['SKIP'] or len(runstate._global_state['REQUIRES']) > 0:""")],
        why='skip test looks at the persistent requirement set only (inline REQUIRES ignored)'),
    'c04_defaults_ignored_when_false': dict(prop='C04', edits=[(DI,
        """        if default_state:
            self._global_state.update(default_state)""",
        """        if default_state:
            self._global_state.update({k: v for k, v in default_state.items() if v})""")],
        why='default options that switch a flag off are dropped'),
    'c04_directive_regex_over_raw_text': dict(prop='C04', edits=[(DI,
        """        for comment in static.extract_comments(text):""",
        """        for comment in re.findall(r'#.*', text):""")],
        why='directive-looking text inside string literals is taken as a directive'),
    'c04_inline_break_only_before': dict(prop='C04', edits=[(PA,
        """                if directives[0].inline:
                    if s2 is not None:
                        break_linenos.append(s2)""",
        """                if directives[0].inline and len(directives) > 1:
                    if s2 is not None:
                        break_linenos.append(s2)""")],
        why='an inline directive with a single option also covers the following statements of the chunk'),
    'c04_minus_skip_inline_noop': dict(prop='C04', edits=[(DI,
        """                elif action == 'assign':
                    state[key] = value""",
        """                elif action == 'assign':
                    if directive.inline and value is False and key == 'SKIP':
                        continue
                    state[key] = value""")],
        why='inline -SKIP does not re-enable a single statement'),
}

# Behaviour-preserving (with respect to the properties) edits: every check must stay green.
CONTROLS = {
    'ctl_stop_restore_reordered': dict(prop=None, run=['C12', 'C11', 'C01'], edits=[(US,
        """            self.started = False
            sys.stdout = self.orig_stdout""",
        """            sys.stdout = self.orig_stdout
            self.started = False""")],
        why='two independent statements swapped'),
    'ctl_logged_dicts_plain': dict(prop=None, run=['C01', 'C02', 'C09'], edits=[(DE,
        """        self.logged_evals = OrderedDict()
        self.logged_stdout = OrderedDict()""",
        """        self.logged_evals = {}
        self.logged_stdout = {}""")],
        why='OrderedDict -> dict (insertion ordered anyway)'),
    'ctl_finally_assert_dropped': dict(prop=None, run=['C01', 'C09', 'C12'], edits=[(DE,
        """                    if cap.enabled:
                        assert cap.text is not None
                    # Ensure that we logged""",
        """                    # Ensure that we logged""")],
        why='a redundant assertion removed'),
    'ctl_runner_warned_after_failed': dict(prop=None, run=['C10', 'C09'], edits=[(RU,
        """            summaries.append(summary)
            if example.warn_list:
                warned.append(example)
            if summary['skipped']:""",
        """            summaries.append(summary)
            if summary['skipped']:""")],
        why='the runner no longer keeps the list of doctests that warned (n_warned is not part of C10): tallies, failed list and exit status are unchanged'),
    'ctl_log_part_restructured': dict(prop=None, run=['C01', 'C02', 'C11'], edits=[(US,
        """        self.cap_stdout.seek(self._pos)
        text = self.cap_stdout.read()
        self._pos = self.cap_stdout.tell()
        self.parts.append(text)
        self.text = text""",
        """        everything = self.cap_stdout.getvalue()
        text = everything[self._pos:]
        self._pos = len(everything)
        self.cap_stdout.seek(self._pos)
        self.parts.append(text)
        self.text = text""")],
        why='log_part reads the new text by slicing getvalue() instead of seek/read: same text'),
    'ctl_loop_left_open_not_running': dict(prop=None, run=['C12'], edits=[(DE,
        """                                else:
                                    asyncio.run(eval(code, test_globals))""",
        """                                else:
                                    _lp = asyncio.new_event_loop()
                                    try:
                                        _lp.run_until_complete(eval(code, test_globals))
                                        _lp.run_until_complete(_lp.shutdown_asyncgens())
                                    finally:
                                        asyncio.set_event_loop(None)""")],
        why='exec-mode await parts run on a loop that is left open but idle: "no event loop is left running" still holds (pending tasks are not cancelled, so this control is only run against C12)'),
    'c02_want_matches_any_suffix_chars': dict(prop=None, run=['C02'], edits=[(CH,
        """        if got == want:
            return True

        if runstate is None:""",
        """        if got == want or (want and got.rstrip().endswith('\\n' + want.rstrip())):
            return True

        if runstate is None:""")],
        why='want accepted when it is a character-level suffix of got: C02 explicitly allows a want that matches a trailing portion of the output, so this must NOT alarm'),
}
