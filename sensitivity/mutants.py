"""Property-breaking, suite-passing edits ("mutants") and behaviour-preserving
refactorings ("controls") used to measure sensitivity and false alarms.

Each entry: name -> dict(prop=<property the check must catch it with, or None
for a control>, edits=[(path relative to the repo, old text, new text)], why=...)

They are applied to a scratch copy of /repo/src (never to /repo) by run.py.
"""

DE = 'src/xdoctest/doctest_example.py'
US = 'src/xdoctest/utils/util_stream.py'
UI = 'src/xdoctest/utils/util_import.py'
DI = 'src/xdoctest/directive.py'
CH = 'src/xdoctest/checker.py'
DP = 'src/xdoctest/doctest_part.py'
PA = 'src/xdoctest/parser.py'
RU = 'src/xdoctest/runner.py'
MA = 'src/xdoctest/__main__.py'

MUTANTS = {
    # ------------------------------------------------------------------ C12
    'c12_stop_only_on_exception': dict(prop='C12', edits=[(US,
        """            try:
                self.log_part()
            except Exception:  # nocover
                raise
            finally:
                self.stop()""",
        """            self.log_part()
            if type_ is None or issubclass(type_, Exception):
                self.stop()""")],
        why='capture not undone when a BaseException (KeyboardInterrupt/SystemExit) propagates'),
    'c12_stop_restores_tee': dict(prop='C12', edits=[(US,
        """            self.started = False
            sys.stdout = self.orig_stdout""",
        """            self.started = False
            if sys.stdout is self.cap_stdout:
                sys.stdout = self.orig_stdout""")],
        why='stdout only restored if the doctest did not replace sys.stdout itself'),
    'c12_no_catch_warnings': dict(prop='C12', edits=[(DE,
        """        with warnings.catch_warnings(record=True) as self.warn_list:
            for partx, part in enumerate(self._parts):""",
        """        self.warn_list = []
        if True:
            for partx, part in enumerate(self._parts):""")],
        why='warning filters changed by doctest code leak'),
    'c12_syspath_pop_only_on_success': dict(prop='C12', edits=[(UI,
        """    try:
        with PythonPathContext(dpath, index=index):
            module = import_module_from_name(modname)
    except Exception as ex:  # nocover""",
        """    try:
        ctx = PythonPathContext(dpath, index=index)
        ctx.__enter__()
        module = import_module_from_name(modname)
        ctx.__exit__(None, None, None)
    except Exception as ex:  # nocover""")],
        why='temporary sys.path entry left behind when the import fails'),
    'c12_syspath_pop_wrong_index': dict(prop='C12', edits=[(UI,
        """                warnings.warn('\\n'.join(msg_parts))
                sys.path.pop(real_index)""",
        """                warnings.warn('\\n'.join(msg_parts))
                sys.path.pop(self.index)""")],
        why='recovery branch removes somebody else\'s entry'),
    'c12_manual_filter_restore_no_finally': dict(prop='C12', edits=[(DE,
        """        with warnings.catch_warnings(record=True) as self.warn_list:
            for partx, part in enumerate(self._parts):""",
        """        self.warn_list = []
        _saved_filters = warnings.filters[:]
        if True:
            for partx, part in enumerate(self._parts):"""), (DE,
        """        if self.exc_info is None:
            self.failed_part = None

        if len(self._skipped_parts) == len(self._parts):""",
        """        warnings.filters[:] = _saved_filters
        if self.exc_info is None:
            self.failed_part = None

        if len(self._skipped_parts) == len(self._parts):""")],
        why='filters restored only when run() reaches its end (not on propagation)'),

    # ------------------------------------------------------------------ C02
    'c02_keep_only_last_unmatched': dict(prop='C02', edits=[(DE,
        """                            self._unmatched_stdout.append(cap.text)""",
        """                            self._unmatched_stdout = [cap.text]""")],
        why='E16: accumulated output of want-less parts lost -> false failures'),
    'c02_continue_after_mismatch': dict(prop='C02', edits=[(DE,
        """                except checker.GotWantException:
                    # When the "got", doesn't match the "want"
                    self.exc_info = sys.exc_info()
                    if on_error == 'raise':
                        raise
                    break""",
        """                except checker.GotWantException:
                    # When the "got", doesn't match the "want"
                    if self.exc_info is None:
                        self.exc_info = sys.exc_info()
                        self._first_failed_part = part
                    if on_error == 'raise':
                        raise
                    continue""")],
        why='M28: statements after a failing want still run'),
    'c02_str_instead_of_repr': dict(prop='C02', edits=[(CH,
        """            try:
                got = repr(got_eval)
            except Exception as ex:""",
        """            try:
                got = str(got_eval)
            except Exception as ex:""")],
        why='K4: value compared by str()'),
    'c02_comment_only_passes': dict(prop='C02', edits=[(DE,
        """                if not part.has_any_code():
                    if DEBUG:
                        print(f'part[{partx}] No code, skipping')
                    self._skipped_parts.append(part)
                    continue""",
        """                if not part.has_any_code():
                    continue""")],
        why='E2: a doctest in which nothing ran counts as passed'),
    'c02_unmatched_not_cleared_after_match': dict(prop='C02', edits=[(DE,
        """                            # Clear unmatched output when a check passes
                            self._unmatched_stdout = []""",
        """                            # Clear unmatched output when a check passes
                            pass""")],
        why='window not cleared: a later want can be satisfied by stale output only in odd cases; '
            'mostly harmless by the trailing-sequence rule -> expected to be hard to see'),

    # ------------------------------------------------------------------ C03
    'c03_bare_raise_return_true': dict(prop='C03', edits=[(CH,
        """    if exc_want is None:
        # Reraise the error if the want message is formatted like an exception
        raise""",
        """    if exc_want is None:
        return True""")],
        why='exception + non-traceback want silently passes'),
    'c03_break_after_expected_exception': dict(prop='C03', edits=[(DE,
        """                            want = part.want
                            checker.check_exception(exc_got, want, runstate)
                        else:
                            raise""",
        """                            want = part.want
                            checker.check_exception(exc_got, want, runstate)
                            break
                        else:
                            raise""")],
        why='statements after an expected exception no longer run'),
    'c03_strip_details_drops_class': dict(prop='C03', edits=[(CH,
        """    return msg[start: end]""",
        """    return ''""")],
        why='IGNORE_EXCEPTION_DETAIL no longer compares the class'),
    'c03_ied_always_on': dict(prop='C03', edits=[(CH,
        """    if not flag and runstate['IGNORE_EXCEPTION_DETAIL']:""",
        """    if not flag:""")],
        why='the message is ignored even without IGNORE_EXCEPTION_DETAIL'),
    'c03_ignore_want_hides_exception': dict(prop='C03', edits=[(DE,
        """                    except Exception:
                        if part.want:
                            # A failure may be expected""",
        """                    except Exception:
                        if part.want and runstate['IGNORE_WANT']:
                            pass
                        elif part.want:
                            # A failure may be expected""")],
        why='IGNORE_WANT swallows any exception of a statement that has a want'),

    # ------------------------------------------------------------------ C09
    'c09_revert_f1': dict(prop='C09', edits=[(DE,
        """                            if 0 < tb_lineno <= len(orig_lines):
                                failed_ctx = orig_lines[tb_lineno - 1]""",
        """                            if True:
                                failed_ctx = orig_lines[tb_lineno - 1]""")],
        why='finding F1 back'),
    'c09_revert_f4': dict(prop='C09', edits=[(DE,
        """                    self.failed_tb_lineno = getattr(ex_value, 'lineno', None) or 1
                    if on_error == 'raise':
                        raise
                    break""",
        """                    self.failed_tb_lineno = getattr(ex_value, 'lineno', None) or 1
                    raise""")],
        why='finding F4 back'),
    'c09_generic_handler_narrowed': dict(prop='C09', edits=[(DE,
        """                except Exception as _ex_dbg:
                    ex_type, ex_value, tb = sys.exc_info()""",
        """                except (ValueError, KeyError, AssertionError, ZeroDivisionError, RuntimeError,
                        TypeError, NameError, AttributeError, IndexError, OSError) as _ex_dbg:
                    ex_type, ex_value, tb = sys.exc_info()""")],
        why='uncommon exception classes (MemoryError, custom) escape on_error=return'),
    'c09_gotrepr_reraises': dict(prop='C09', edits=[(DE,
        """                    self.exc_info = sys.exc_info()
                    if on_error == 'raise':
                        raise ex.orig_ex
                    break""",
        """                    self.exc_info = sys.exc_info()
                    raise ex.orig_ex""")],
        why='a repr that raises escapes'),
    'c09_runner_raises_for_single': dict(prop='C09', edits=[(RU,
        """    on_error = 'return' if n_total > 1 else 'raise'
    on_error = 'return'
""",
        """    on_error = 'return' if n_total > 1 else 'raise'
""")],
        why='native run of a module with one doctest propagates its failure'),
    'c09_import_error_only_importerror': dict(prop='C09', edits=[(DE,
        """                    try:
                        self._import_module()
                    except Exception:""",
        """                    try:
                        self._import_module()
                    except ImportError:""")],
        why='module import failing with RuntimeError(wrapped) escapes'),
    'c09_failed_lineno_innermost_frame': dict(prop='C09', edits=[(DE,
        """                            found_lineno = sub_tb.tb_lineno
                            break""",
        """                            found_lineno = sub_tb.tb_lineno""")],
        why='E4: failing line taken from the innermost doctest frame (helper) instead of the calling statement'),
}

# Behaviour-preserving (with respect to the properties) edits: every check must stay green.
CONTROLS = {
    'c02_want_matches_any_suffix_chars': dict(prop=None, run=['C02'], edits=[(CH,
        """        if got == want:
            return True

        if runstate is None:""",
        """        if got == want or (want and got.rstrip().endswith('\\n' + want.rstrip())):
            return True

        if runstate is None:""")],
        why='want accepted when it is a character-level suffix of got: C02 explicitly allows a want that matches a trailing portion of the output, so this must NOT alarm'),
}
