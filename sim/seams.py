"""Seams: everything nondeterministic or fault-prone that xdoctest touches is
replaced here by an object the simulator owns.  Nothing in /repo is patched on
disk; all seams are module attributes / process globals reachable from outside.

  SimStream   stands in for the terminal (sys.stdout before xdoctest swaps it)
  SimLoop     virtual-time asyncio loop handed out by the event-loop policy
  VClock      what xdoctest.runner sees as the `time` module
  walk        os.walk with a seeded permutation of each directory's entries
  environment os.environ / sys.argv per scenario
"""
import asyncio
import io
import os
import random
import re
import selectors
import sys

# ----------------------------------------------------------------------------
# event log (ground truth history).  One list per scenario.
# ----------------------------------------------------------------------------

class Log:
    def __init__(self):
        self.events = []
        self.root = None       # scratch root, replaced by <R> in logged text

    def norm(self, text):
        if not isinstance(text, str):
            text = str(text)
        if self.root:
            text = text.replace(self.root, '<R>')
        text = _HEX.sub('0xX', text)
        return text

    def add(self, kind, *fields):
        self.events.append((len(self.events), kind) + fields)
        return len(self.events) - 1


_HEX = re.compile(r'0x[0-9a-fA-F]{6,}')
LOG = Log()


# ----------------------------------------------------------------------------
# stdout
# ----------------------------------------------------------------------------

class SimStreamFault(Exception):
    pass


class SimStream(io.StringIO):
    """The 'terminal'.  Records each write; can fail chosen writes once.

    ``fail_plan`` maps a write ordinal (counted from ``arm()``) to an exception
    class name.  Ordinals are only counted while armed, i.e. while a doctest
    part executes; xdoctest's own reporting is never failed.
    """

    def __init__(self, name='stdout'):
        super().__init__()
        self.name_ = name
        self.armed = False
        self.ordinal = 0
        self.fail_plan = {}
        self.n_writes = 0
        self.fired = []
        self.buffer = io.BytesIO()      # what a real text stream has underneath
        self.ascii_only = False         # a terminal with a narrow encoding (LANG=C)

    def arm(self, fail_plan):
        self.armed = True
        self.ordinal = 0
        self.fail_plan = dict(fail_plan)

    def disarm(self):
        self.armed = False
        self.fail_plan = {}

    def write(self, msg):
        self.n_writes += 1
        if self.ascii_only and isinstance(msg, str) and not msg.isascii():
            if S_in_part():
                self.fired.append(('ascii', 'UnicodeEncodeError'))
                LOG.add('fault', 'stream', 'ascii', 'UnicodeEncodeError')
            raise UnicodeEncodeError('ascii', msg, 0, 1, 'sim: ordinal not in range(128)')
        if self.armed and S_in_part():
            k = self.ordinal
            self.ordinal += 1
            excname = self.fail_plan.pop(k, None)
            if excname is not None:
                self.fired.append((k, excname))
                LOG.add('fault', 'stream', k, excname)
                if excname == 'BlockingIOError':
                    raise BlockingIOError(11, 'sim: write would block')
                if excname == 'UnicodeEncodeError':
                    raise UnicodeEncodeError('ascii', 'x', 0, 1, 'sim: cannot encode')
                if excname == 'OSError':
                    raise OSError(5, 'sim: I/O error')
                raise SimStreamFault(excname)
        return super().write(msg)

    def flush(self):
        # the terminal may also fail when it is flushed (a broken pipe shows up there)
        if self.armed and S_in_part() and self.fail_plan.get('flush'):
            excname = self.fail_plan.pop('flush')
            self.fired.append(('flush', excname))
            LOG.add('fault', 'stream', 'flush', excname)
            raise OSError(32, 'sim: broken pipe on flush')
        return super().flush()

    # a terminal-like object
    def isatty(self):
        return False


_in_part_probe = [lambda: False]


def S_in_part():
    return _in_part_probe[0]()


def set_in_part_probe(fn):
    _in_part_probe[0] = fn


# ----------------------------------------------------------------------------
# asyncio: virtual time loop
# ----------------------------------------------------------------------------

class _VSelector(selectors.BaseSelector):
    """Never blocks.  A positive timeout means 'nothing runnable before the next
    timer': jump the loop's clock there."""

    def __init__(self, loop_ref):
        self._map = {}
        self._loop_ref = loop_ref

    def register(self, fileobj, events, data=None):
        fd = fileobj if isinstance(fileobj, int) else fileobj.fileno()
        key = selectors.SelectorKey(fileobj, fd, events, data)
        self._map[fileobj] = key
        return key

    def unregister(self, fileobj):
        return self._map.pop(fileobj)

    def modify(self, fileobj, events, data=None):
        self.unregister(fileobj)
        return self.register(fileobj, events, data)

    def select(self, timeout=None):
        loop = self._loop_ref[0]
        if timeout is None:
            # nothing ready, no timers: a real loop would block for ever
            raise RuntimeError('sim: event loop deadlock (nothing runnable, no timers)')
        if timeout > 0:
            loop._vnow += timeout
            loop._vjumps += 1
        return []

    def get_map(self):
        return self._map

    def close(self):
        self._map.clear()


MUTED = [False]


class SimLoop(asyncio.SelectorEventLoop):
    instances = []          # every loop ever created in this process (= scenario)
    T0 = 1000.0

    def __init__(self):
        ref = [None]
        super().__init__(selector=_VSelector(ref))
        ref[0] = self
        self._vnow = SimLoop.T0
        self._vjumps = 0
        if MUTED[0]:
            # loop created by the reference execution: not part of the history
            self.sim_id = -1
            return
        self.sim_id = len(SimLoop.instances)
        SimLoop.instances.append(self)
        LOG.add('loop_new', self.sim_id)

    def time(self):
        return self._vnow

    def close(self):
        was = self.is_closed()
        super().close()
        if not was and self.sim_id >= 0:
            LOG.add('loop_closed', self.sim_id, round(self._vnow - SimLoop.T0, 6))


class SimPolicy(asyncio.DefaultEventLoopPolicy):
    def new_event_loop(self):
        return SimLoop()


def install_loop_policy():
    import warnings
    with warnings.catch_warnings():
        warnings.simplefilter('ignore')
        asyncio.set_event_loop_policy(SimPolicy())


def simulated_loop_time():
    return sum(l._vnow - SimLoop.T0 for l in SimLoop.instances)


# ----------------------------------------------------------------------------
# wall clock as seen by xdoctest.runner
# ----------------------------------------------------------------------------

class VClock:
    """Replaces the `time` module object inside xdoctest.runner."""

    def __init__(self, jumps=()):
        self.now = 1.7e9
        self.calls = 0
        self.jumps = dict(jumps)      # call ordinal -> delta seconds
        self.advanced = 0.0

    def time(self):
        k = self.calls
        self.calls += 1
        self.now += 0.25              # every reading costs a quarter second
        self.advanced += 0.25
        d = self.jumps.get(k)
        if d:
            self.now += d
            self.advanced += abs(d)
            LOG.add('fault', 'clock_jump', k, d)
        return self.now

    def perf_counter(self):
        return self.time()

    def sleep(self, s):
        self.now += s
        self.advanced += s


# ----------------------------------------------------------------------------
# directory listing order
# ----------------------------------------------------------------------------

_real_walk = os.walk


def make_walk(listing_seed):
    def walk(top, topdown=True, onerror=None, followlinks=False):
        for dpath, dnames, fnames in _real_walk(top, topdown, onerror, followlinks):
            rng = random.Random('%s|%s' % (listing_seed, os.path.basename(dpath)))
            dn = sorted(dnames)
            fn = sorted(fnames)
            rng.shuffle(dn)
            rng.shuffle(fn)
            dnames[:] = dn
            fnames[:] = fn
            yield dpath, dnames, fnames
    return walk


# ----------------------------------------------------------------------------
# environment
# ----------------------------------------------------------------------------

SCRUB_PREFIXES = ('XDOCTEST_', 'PYTEST_', 'SIM_')
SCRUB_NAMES = ('PYTHONWARNINGS', 'COLUMNS', 'LINES', 'FORCE_COLOR', 'NO_COLOR')


def set_environment(environ, argv):
    for k in list(os.environ):
        if k.startswith(SCRUB_PREFIXES) or k in SCRUB_NAMES:
            del os.environ[k]
    for k, v in sorted(environ.items()):
        os.environ[k] = v
    sys.argv[:] = list(argv)
