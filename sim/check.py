"""Driver: batches, determinism self-test, triage against known findings,
minimisation, replay files, evidence."""
import copy
import hashlib
import importlib
import json
import os
import re
import sys
import time

HERE = os.path.dirname(os.path.abspath(__file__))
VERIF = os.path.dirname(HERE)
sys.path.insert(0, HERE)
sys.path.insert(0, os.path.join(HERE, 'oracles'))

import engine      # noqa: E402
import harness     # noqa: E402
import world as W  # noqa: E402

PROFILES = {}


def get_profile(pid):
    if pid not in PROFILES:
        PROFILES[pid] = importlib.import_module(pid.lower())
    return PROFILES[pid]


# ----------------------------------------------------------------------------
# evaluation of one scenario (runs inside a forked child)
# ----------------------------------------------------------------------------

def _count_pass(scn, root):
    rec = harness.execute(scn, root, count_only=True)
    return [[k[0], k[1], v] for k, v in rec['trace_counts'].items()]


def resolve_traces(scn, root):
    """turn {'trace_frac': x} plan entries into explicit event ordinals by a
    counting pass (fresh fork each), one entry at a time in list order."""
    plan = scn.get('plan', [])
    if not any('trace_frac' in f for f in plan):
        return scn
    scn = copy.deepcopy(scn)
    for f in scn['plan']:
        if 'trace_frac' not in f:
            continue
        croot = root[:-3] + 'c' + root[-2:]
        import shutil
        shutil.rmtree(croot, ignore_errors=True)
        os.makedirs(croot, exist_ok=True)
        tag, val = engine.fork_call(_count_pass, (scn, croot))
        shutil.rmtree(croot, ignore_errors=True)
        frac = f.pop('trace_frac')
        site = f.pop('trace_site', 'any')
        sites = ''
        if tag == 'ok':
            for dt, k, cnt in val:
                if dt == f['dt'] and k == f['k']:
                    sites = cnt
        n = len(sites)
        if n > 0:
            cand = [i + 1 for i, c in enumerate(sites) if c == site] or list(range(1, n + 1))
            f['trace'] = cand[min(len(cand) - 1, int(frac * len(cand)))]
            f['trace_of'] = n
        else:
            f['trace'] = 0          # never fires: that execution does not happen / has no events
            f['trace_of'] = 0
    return scn


def evaluate(task, root):
    if task.get('sweep'):
        return evaluate_sweep(task, root)
    prof = get_profile(task['profile'])
    if 'scenario' in task:
        scn = task['scenario']
    else:
        rng = engine.rng_for(task['seed'], task['profile'], task['index'])
        scn = prof.generate(rng, task.get('tier', 'quick'))
        scn['seed'] = task['seed']
        scn['index'] = task['index']
    scn = resolve_traces(scn, root)
    ctx = prof.prepare(scn, root) if hasattr(prof, 'prepare') else None
    try:
        rec = harness.execute(scn, root)
        rec['ctx'] = ctx
        viols = prof.check(rec)
    finally:
        if ctx is not None:
            prof.cleanup(ctx)
    st = prof.stats(rec, viols)
    out = {'digest': rec['digest'], 'violations': viols, 'stats': st,
           'sim_time': rec['sim_time'], 'n_events': rec['n_events'],
           'n_execs': len(rec['execs'])}
    if viols or task.get('want_scn'):
        out['scn'] = scn
    if task.get('want_events'):
        out['events'] = rec['events']
    if task.get('want_sample'):
        out['sample'] = make_sample(rec)
    return out


def evaluate_sweep(task, root):
    """thorough tier: one *complete* sweep of a finite fault sub-space of one
    sampled world (every crash point, every single wrong answer, every point x
    exception kind ...).  The profile lists the variants as explicit scenarios;
    each runs in its own fork like any other scenario."""
    import shutil
    prof = get_profile(task['profile'])
    rng = engine.rng_for(task['seed'], task['profile'], task['index'], salt='sweep')

    def count_events(scn):
        croot = root[:-3] + 'c' + root[-2:]
        shutil.rmtree(croot, ignore_errors=True)
        os.makedirs(croot, exist_ok=True)
        tag, val = engine.fork_call(_count_pass, (scn, croot))
        shutil.rmtree(croot, ignore_errors=True)
        return val if tag == 'ok' else []
    variants = prof.sweep(rng, {'count_events': count_events, 'index': task['index']})
    results = []
    for j, scn in enumerate(variants):
        scn['seed'] = task['seed']
        scn['index'] = 'sweep%d.%d' % (task['index'], j)
        shutil.rmtree(root, ignore_errors=True)
        os.makedirs(root, exist_ok=True)
        tag, val = engine.fork_call(evaluate, ({'profile': task['profile'], 'scenario': scn}, root))
        if tag != 'ok':
            results.append({'tag': tag, 'val': val if isinstance(val, str) else None, 'scn': scn})
        else:
            val['tag'] = 'ok'
            if val['violations']:
                val['scn'] = scn
            results.append(val)
    return {'sweep': True, 'results': results, 'digest': hashlib.sha256(
        '|'.join(r.get('digest', r['tag']) for r in results).encode()).hexdigest()}


def make_sample(rec):
    scn = rec['scn']
    files, meta = W.render_world(scn['world'], scn.get('env', {}))
    texts = {}
    for e in rec['execs'][:2]:
        m = meta.get(e['dtid'])
        if m:
            lines = files[m['relpath']].split('\n')
            lo = m['lineno'] - 1
            hi = max([s['want_line'] or s['last'] for s in m['steps']] + [lo + 1]) + 3
            texts[e['dtid']] = lines[lo:hi][:25]
    return {
        'seed': scn.get('seed'), 'index': scn.get('index'),
        'ops': scn['ops'], 'plan': scn.get('plan', []), 'env': scn.get('env', {}),
        'doctests': texts,
        'outcomes': [[e['dtid'], e['k'], e['how'], e['exc'], e['summary'] and e['summary']['verdict']] for e in rec['execs']][:8],
        'faults_fired': [list(map(str, f)) for f in rec['fired']][:8],
    }


# ----------------------------------------------------------------------------
# known findings
# ----------------------------------------------------------------------------

def load_known():
    path = os.path.join(VERIF, 'known_findings.json')
    if not os.path.exists(path):
        return []
    with open(path) as f:
        return json.load(f).get('findings', [])


def match_known(v, known):
    for k in known:
        if k.get('status') != 'known':
            continue
        if k.get('rule') and k['rule'] != v['rule']:
            continue
        rx = k.get('detail_regex')
        if rx and not re.search(rx, v['detail'], re.S):
            continue
        return k
    return None


# ----------------------------------------------------------------------------
# minimisation
# ----------------------------------------------------------------------------

def run_explicit(profile, scn, timeout=60.0, **kw):
    root = engine.single_root()
    task = dict(profile=profile, scenario=scn, **kw)
    return engine.fork_call(evaluate, (task, root), timeout=timeout)


def signature(detail):
    """what kind of violation a detail text describes, with identifiers, numbers
    and quoted / bracketed payloads removed (minimisation keeps a candidate only if
    the same rule fires for the same kind of reason)"""
    text = detail.split(': ', 1)[1] if ': ' in detail else detail
    text = re.sub(r"'[^']*'|\"[^\"]*\"|\[[^\]]*\]|\([^)]*\)", '', text)
    text = re.sub(r'[0-9]+', '', text)
    text = re.sub(r'\b(?:simpkg|q|Tk|Wr)[\w.:#]*', '', text)
    return ' '.join(text.split())[:48]


def same_violation(res, rule, sig=None):
    tag, val = res
    if tag == 'timeout':
        return rule.endswith('.HANG')
    if tag != 'ok':
        return False
    return any(v['rule'] == rule and (sig is None or signature(v['detail']) == sig) for v in val['violations'])


def _candidates(scn):
    """yield (description, candidate scenario) -- simpler first"""
    # drop ops
    n = len(scn['ops'])
    for i in reversed(range(n)):
        if n <= 1:
            break
        c = copy.deepcopy(scn)
        del c['ops'][i]
        yield 'drop op %d' % i, c
    # drop plan entries
    for i in reversed(range(len(scn.get('plan', [])))):
        c = copy.deepcopy(scn)
        del c['plan'][i]
        yield 'drop plan %d' % i, c
    # drop modules
    mods = scn['world']['modules']
    if len(mods) > 1:
        for i in reversed(range(len(mods))):
            c = copy.deepcopy(scn)
            gone = c['world']['modules'][i]
            del c['world']['modules'][i]
            c['ops'] = [o for o in c['ops'] if not _op_refs_module(o, gone)]
            if c['ops']:
                yield 'drop module %s' % gone['name'], c
    # drop items / methods / doctests
    for mi, mod in enumerate(mods):
        for ii in reversed(range(len(mod['items']))):
            it = mod['items'][ii]
            c = copy.deepcopy(scn)
            del c['world']['modules'][mi]['items'][ii]
            if _refs_ok(c):
                yield 'drop item %s' % it.get('name', it['kind']), c
            if it['kind'] == 'class':
                for mj in reversed(range(len(it.get('methods', [])))):
                    c = copy.deepcopy(scn)
                    del c['world']['modules'][mi]['items'][ii]['methods'][mj]
                    if _refs_ok(c):
                        yield 'drop method', c
    # drop steps
    for path, dt in _iter_dt_paths(scn['world']):
        steps = dt['steps']
        if len(steps) <= 1:
            continue
        for si in reversed(range(len(steps))):
            st = steps[si]
            if any(o.get('ref') == st['i'] for o in steps):
                continue
            c = copy.deepcopy(scn)
            d = _get_path(c['world'], path)
            del d['steps'][si]
            import gen
            gen.fix_chunk_starts(d['steps'])
            yield 'drop step %d of %s' % (st['i'], path), c
    # simplify
    for i, op in enumerate(scn['ops']):
        if op.get('verbose'):
            c = copy.deepcopy(scn)
            c['ops'][i]['verbose'] = 0
            yield 'verbose->0', c
        if op.get('fresh'):
            c = copy.deepcopy(scn)
            c['ops'][i]['fresh'] = False
            yield 'fresh->False', c
    for path, dt in _iter_dt_paths(scn['world']):
        for si, st in enumerate(dt['steps']):
            for key, simple in (('ps2', False), ('sep', 'none'), ('inline_at', 'last')):
                if st.get(key) not in (None, simple):
                    c = copy.deepcopy(scn)
                    _get_path(c['world'], path)['steps'][si][key] = simple
                    yield '%s simplified' % key, c
    for mi, mod in enumerate(mods):
        for ii, it in enumerate(mod['items']):
            for doc in _docs_of(it):
                if doc.get('tabs'):
                    c = copy.deepcopy(scn)
                    for d2 in _docs_of(c['world']['modules'][mi]['items'][ii]):
                        d2['tabs'] = False
                    yield 'tabs->spaces', c


def _docs_of(it):
    out = []
    if it.get('doc'):
        out.append(it['doc'])
    for m in it.get('methods', []):
        if m.get('doc'):
            out.append(m['doc'])
    return out


def _iter_dt_paths(world):
    for mi, mod in enumerate(world['modules']):
        for ii, it in enumerate(mod['items']):
            if it.get('doc'):
                for di, dt in enumerate(it['doc']['doctests']):
                    yield (mi, ii, None, di), dt
            for mj, m in enumerate(it.get('methods', [])):
                if m.get('doc'):
                    for di, dt in enumerate(m['doc']['doctests']):
                        yield (mi, ii, mj, di), dt


def _get_path(world, path):
    mi, ii, mj, di = path
    it = world['modules'][mi]['items'][ii]
    if mj is not None:
        it = it['methods'][mj]
    return it['doc']['doctests'][di]


def _op_refs_module(op, mod):
    if op['op'] == 'run_obj':
        return op['dt'].startswith(mod['name'] + '::')
    if op['op'] in ('runner', 'import_by_path'):
        return op.get('target', op.get('module')) == mod['relpath']
    if op['op'] == 'cli':
        return ('PATH:' + mod['relpath']) in op['argv']
    return False


def _refs_ok(scn):
    ids = set(d for d, _, _ in W.iter_doctests(scn['world']))
    for op in scn['ops']:
        if op['op'] == 'run_obj' and op['dt'] not in ids:
            return False
    return True


def minimise(profile, scn, rule, budget_s=25.0, log=None, sig=None):
    t_end = time.monotonic() + budget_s
    cur = scn
    tried = 0
    improved = True
    while improved and time.monotonic() < t_end:
        improved = False
        for desc, cand in _candidates(cur):
            if time.monotonic() > t_end:
                break
            tried += 1
            res = run_explicit(profile, cand)
            if same_violation(res, rule, sig):
                cur = cand
                improved = True
                if log:
                    log('  shrink: ' + desc)
                break
    return cur, tried


# ----------------------------------------------------------------------------
# replay files
# ----------------------------------------------------------------------------

def write_replay(profile, v, scn, note=''):
    files, meta = W.render_world(scn['world'], scn.get('env', {}))
    h = hashlib.sha256(W.dumps(scn).encode()).hexdigest()[:10]
    name = '%s-%s-%s-%s.json' % (profile, v['rule'].replace('.', '_'), scn.get('seed', 'x'), h)
    path = os.path.join(os.environ.get('VERIF_REPLAY_DIR') or os.path.join(VERIF, 'replays'), name)
    os.makedirs(os.path.dirname(path), exist_ok=True)
    with open(path, 'w') as f:
        json.dump({'property': profile, 'rule': v['rule'], 'detail': v['detail'], 'where': v.get('where'),
                   'seed': scn.get('seed'), 'index': scn.get('index'), 'note': note,
                   'scenario': scn, 'rendered_files': files}, f, indent=1, sort_keys=True)
    return path


def replay(path):
    with open(path) as f:
        doc = json.load(f)
    profile = doc['property']
    res = run_explicit(profile, doc['scenario'], want_events=False)
    tag, val = res
    if tag == 'timeout':
        print('replay: scenario hung (watchdog)')
        if doc['rule'].endswith('.HANG'):
            print('VIOLATION property=%s replay=%s' % (profile, path))
            return 1
        return 3
    if tag != 'ok':
        print('replay: harness error: %s %s' % (tag, val))
        return 2
    rules = [v['rule'] for v in val['violations']]
    for v in val['violations']:
        print('  %s: %s' % (v['rule'], v['detail']))
    if doc['rule'] in rules:
        print('VIOLATION property=%s replay=%s' % (profile, path))
        print('reproduced rule %s' % doc['rule'])
        return 1
    print('replay: not reproduced (expected %s, got %s)' % (doc['rule'], rules))
    return 3


# ----------------------------------------------------------------------------
# the check
# ----------------------------------------------------------------------------

def run_check(pid, tier, seed, jobs, n_override=None, budget=None, out=print):
    prof = get_profile(pid)
    t0 = time.time()
    n = n_override or (prof.N_QUICK if tier == 'quick' else prof.N_THOROUGH)
    n_det = min(n, 60 if tier == 'quick' else 400)
    sample_idx = set(range(0, n, max(1, n // 5)))
    tasks = []
    for i in range(n):
        t = {'profile': pid, 'seed': seed, 'index': i, 'tier': tier}
        if i in sample_idx:
            t['want_sample'] = True
        tasks.append(t)
        if i < n_det:
            tasks.append({'profile': pid, 'seed': seed, 'index': i, 'tier': tier, 'dup': True})
    n_sweeps = 0
    if hasattr(prof, 'sweep'):
        n_sweeps = getattr(prof, 'N_SWEEPS_THOROUGH', 200) if tier == 'thorough' else getattr(prof, 'N_SWEEPS_QUICK', 0)
        if n_override:
            n_sweeps = min(n_sweeps, max(1, n_override // 100)) if tier == 'thorough' else 0
        sweep_tasks = []
        for i in range(n_sweeps):
            t = {'profile': pid, 'seed': seed, 'index': i, 'tier': tier, 'sweep': True, 'timeout': 600}
            sweep_tasks.append(t)
            if i < 3:
                sweep_tasks.append(dict(t, dup=True))
        tasks = sweep_tasks + tasks      # complete sweeps first: a wall budget then cuts the sampled part
    harness.install_wrappers()      # pre-warm: import xdoctest etc. before forking
    pool = engine.Pool(evaluate, jobs)
    digests = {}
    det_pairs = 0
    det_bad = []
    harness_errors = []
    violations = []      # (index, violation, scn)
    hangs = []
    hang_scns = []       # (index, explicit scenario) of sweep variants that hung
    agg = {'fired': {}, 'outcomes': {}, 'probes': {}, 'classes': set()}
    nontrivial_digests = set()
    all_digests = set()
    cnt = {'done': 0, 'faulting': 0, 'sim_time': 0.0, 'events': 0, 'execs': 0, 'sweeps': 0, 'sweep_variants': 0}
    samples = []
    wall_cap = budget

    def absorb(idx, val):
        cnt['done'] += 1
        st = val['stats']
        for key in ('fired', 'outcomes', 'probes'):
            for k_, v_ in st.get(key, {}).items():
                agg[key][k_] = agg[key].get(k_, 0) + v_
        for c in st.get('classes', []):
            agg['classes'].add(c)
        all_digests.add(val['digest'])
        if st.get('nontrivial'):
            nontrivial_digests.add(val['digest'])
        if st.get('faulting'):
            cnt['faulting'] += 1
        cnt['sim_time'] += val.get('sim_time', 0)
        cnt['events'] += val.get('n_events', 0)
        cnt['execs'] += val.get('n_execs', 0)
        if val.get('sample') and len(samples) < 5:
            samples.append(val['sample'])
        for v in val['violations']:
            violations.append((idx, v, val.get('scn')))

    try:
        for res in pool.map_unordered(tasks, wall_cap=wall_cap):
            task = res['task']
            idx = task['index']
            if task.get('sweep'):
                idx = 'sweep%d' % idx
            if res['tag'] == 'timeout':
                if not task.get('sweep'):
                    hangs.append(idx)
                else:
                    harness_errors.append((idx, 'sweep exceeded its wall budget', None))
                continue
            if res['tag'] != 'ok':
                harness_errors.append((idx, res['tag'], res['val']))
                continue
            val = res['val']
            if task.get('dup') or task.get('sweep') or idx < n_det:
                if idx in digests:
                    det_pairs += 1
                    if digests[idx] != val['digest']:
                        det_bad.append(idx)
                else:
                    digests[idx] = val['digest']
            if task.get('dup'):
                continue
            if task.get('sweep'):
                cnt['sweeps'] += 1
                for sub in val['results']:
                    if sub['tag'] == 'timeout':
                        hang_scns.append((idx, sub['scn']))
                    elif sub['tag'] != 'ok':
                        harness_errors.append((idx, sub['tag'], sub.get('val')))
                    else:
                        cnt['sweep_variants'] += 1
                        absorb(idx, sub)
                continue
            absorb(idx, val)
    finally:
        pool.close()
    wall_batch = time.time() - t0

    exit_code = 0
    if det_bad:
        out('HARNESS-ERROR: digest mismatch between two runs of the same seed/index: %s' % sorted(det_bad)[:10])
        exit_code = 2
    if harness_errors:
        out('HARNESS-ERROR: %d run(s) ended in a harness exception / dead worker' % len(harness_errors))
        for idx, tag, val in harness_errors[:3]:
            out('  index %s: %s\n%s' % (idx, tag, (val or '')[-1500:] if isinstance(val, str) else val))
        exit_code = 2

    known = load_known()
    known_hits = {}
    new = []
    for idx, v, scn in violations:
        k = match_known(v, known)
        if k is not None:
            known_hits.setdefault(k['id'], []).append(idx)
        else:
            new.append((idx, v, scn))
    # hangs: re-run once alone
    for idx in hangs[:3]:
        task = {'profile': pid, 'seed': seed, 'index': idx, 'tier': tier, 'want_scn': True}
        root = engine.single_root()
        tag, val = engine.fork_call(evaluate, (task, root), timeout=engine.RUN_TIMEOUT)
        if tag == 'timeout':
            rng = engine.rng_for(seed, pid, idx)
            scn = prof.generate(rng, tier)
            scn['seed'] = seed
            scn['index'] = idx
            new.append((idx, {'rule': pid + '.HANG', 'detail': 'scenario did not finish within %ss (twice)' % engine.RUN_TIMEOUT,
                              'where': {}}, scn))
    for idx, scn in hang_scns[:3]:
        tag, val = run_explicit(pid, scn, timeout=engine.RUN_TIMEOUT)
        if tag == 'timeout':
            new.append((idx, {'rule': pid + '.HANG', 'detail': 'scenario did not finish within %ss (twice)' % engine.RUN_TIMEOUT,
                              'where': {}}, scn))
    n_done, n_faulting, sim_time, n_events, n_execs = cnt['done'], cnt['faulting'], cnt['sim_time'], cnt['events'], cnt['execs']
    replay_paths = []
    if exit_code == 0:
        for kid, idxs in sorted(known_hits.items()):
            k = [x for x in known if x['id'] == kid][0]
            out('KNOWN-FINDING: property=%s %s (%s; hit in %d runs, e.g. index %s)' % (
                k['property'], k['what'], kid, len(idxs), idxs[0]))
        by_rule = {}
        for idx, v, scn in new:
            by_rule.setdefault(v['rule'], []).append((idx, v, scn))
        for rule, lst in sorted(by_rule.items()):
            lst.sort(key=lambda x: (len(W.dumps(x[2])) if x[2] else 1 << 30))
            idx, v, scn = lst[0]
            out('violation %s in %d run(s); first: index %s: %s' % (rule, len(lst), idx, v['detail']))
            small, tried = minimise(pid, scn, rule, log=None, sig=signature(v['detail']))
            res = run_explicit(pid, small)
            vv = v
            if res[0] == 'ok':
                for x in res[1]['violations']:
                    if x['rule'] == rule and signature(x['detail']) == signature(v['detail']):
                        vv = x
                        break
            path = write_replay(pid, vv, small, note='minimised from seed %s index %s (%d candidates tried)' % (seed, idx, tried))
            replay_paths.append(path)
            out('VIOLATION property=%s replay=%s' % (pid, path))
            out('  rule %s: %s' % (rule, vv['detail']))
            exit_code = 1
    engine.cleanup_single()
    wall = time.time() - t0
    evidence = {
        'property_id': pid, 'tier': tier, 'seed': seed, 'level': prof.LEVEL,
        'wall_s': round(wall, 2), 'violations': len(new),
        'coverage': {
            'evaluations': n_done,
            'distinct_nontrivial': len(nontrivial_digests),
            'rule': ('scenario = f(VERIF_SEED, index): generated world + environment + operation history + fault plan, '
                     'run in a fresh forked process against the real xdoctest; distinct = distinct SHA-256 of the full '
                     'event log; non-trivial = at least one doctest statement executed and, if the scenario plans '
                     'faults, at least one fault actually fired'),
            'samples': samples,
            'distinct_event_logs': len(all_digests),
            'distinct_state_classes': len(agg['classes']),
            'state_class_measure': 'outcome x on_error x tee/quiet x mode (coarse), event-log digest (fine)',
            'runs_per_hour': int(n_done / max(wall_batch, 1e-6) * 3600),
            'seeds': {'base_seed': seed, 'index_range': [0, n - 1], 'completed': n_done},
            'simulated_time_s': round(sim_time, 3),
            'events_logged': n_events,
            'doctest_executions': n_execs,
            'complete_sweeps': cnt['sweeps'],
            'sweep_variants_run': cnt['sweep_variants'],
            'sweep_rule': getattr(prof, 'SWEEP_RULE', None),
            'faulting_scenarios': n_faulting,
            'fault_free_scenarios': n_done - n_faulting,
            'faults_fired': dict(sorted(agg['fired'].items())),
            'outcomes_seen': dict(sorted(agg['outcomes'].items())),
            'probes': dict(sorted(agg['probes'].items())),
            'determinism_pairs_checked': det_pairs,
            'determinism_mismatches': len(det_bad),
            'hangs': len(hangs),
            'harness_errors': len(harness_errors),
            'known_findings_hit': {k: len(v) for k, v in known_hits.items()},
            'components': {
                'real': ['xdoctest (all of it, from /repo/src working tree)', 'CPython compile/exec/eval, importlib, warnings, asyncio tasks/futures', 'file system (tmpfs)'],
                'stub': ['code under test (scripted peer _xdsim)', 'terminal (SimStream)', 'asyncio selector + loop clock (SimLoop)', 'xdoctest.runner.time (VClock)', 'os.walk order', 'os.environ/sys.argv'],
            },
            'jobs': jobs,
        },
        'assumptions': getattr(prof, 'ASSUMPTIONS', []),
    }
    evdir = os.environ.get('VERIF_EVIDENCE_DIR') or os.path.join(VERIF, 'evidence')
    os.makedirs(evdir, exist_ok=True)
    with open(os.path.join(evdir, pid + '.json'), 'w') as f:
        json.dump(evidence, f, indent=1, sort_keys=True, default=str)
    out('%s %s: %d scenarios, %d distinct non-trivial, %d determinism pairs, %d new violation(s), %.1fs' % (
        pid, tier, n_done, len(nontrivial_digests), det_pairs, len(new), wall))
    return exit_code
