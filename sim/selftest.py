"""Determinism self-test: every sampled (seed, index) must produce the same
event-log digest when run twice, with a different worker count, and in a fresh
interpreter under another PYTHONHASHSEED.  A mismatch is a harness error."""
import json
import os
import subprocess
import sys

import check
import engine
import harness

REGISTERED = ['C01', 'C02', 'C03', 'C04', 'C09', 'C10', 'C11', 'C12']


def available():
    out = []
    for pid in REGISTERED:
        if os.path.exists(os.path.join(os.path.dirname(os.path.abspath(__file__)), 'oracles', pid.lower() + '.py')):
            out.append(pid)
    return out


def digests(pid, n, jobs, seed, start=0):
    harness.install_wrappers()
    pool = engine.Pool(check.evaluate, jobs)
    out = {}
    try:
        tasks = [{'profile': pid, 'seed': seed, 'index': i, 'tier': 'quick'} for i in range(start, start + n)]
        for res in pool.map_unordered(tasks):
            i = res['task']['index']
            out[i] = res['val']['digest'] if res['tag'] == 'ok' else 'ERR:' + res['tag']
    finally:
        pool.close()
    return out


def main(fast=False):
    n = 25 if fast else 500
    bad = 0
    total = 0
    for pid in available():
        seed = 77
        a = digests(pid, n, 16, seed)
        env = dict(os.environ, PYTHONHASHSEED='12345')
        p = subprocess.run([sys.executable, os.path.join(os.path.dirname(os.path.abspath(__file__)), 'cli.py'),
                            'digests', pid, str(n), '--jobs', '3', '--seed', str(seed)],
                           env=env, stdout=subprocess.PIPE, text=True, timeout=3600)
        b = {int(k): v for k, v in json.loads(p.stdout.strip().splitlines()[-1]).items()}
        mism = [i for i in a if a[i] != b.get(i)]
        errs = [i for i in a if str(a[i]).startswith('ERR')]
        total += len(a)
        print('selftest %s: %d indices, 16 workers/hashseed 0 vs 3 workers/hashseed 12345: %d mismatches, %d errors' % (
            pid, len(a), len(mism), len(errs)))
        if mism or errs:
            bad += 1
            print('  first mismatching indices: %s' % sorted(mism)[:10])
    print('selftest: %d digests compared, %s' % (total, 'OK' if not bad else 'FAILED'))
    return 0 if not bad else 2
