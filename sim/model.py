"""Reference model: what a doctest must do, given the text's structure, the
environment and the behaviour plan of one execution.  No xdoctest imports.

Two parts:
  * a *reference execution*: the de-prompted source of every statement that
    the directive machine lets run is compiled and executed as ordinary Python
    in a fresh namespace, against the same peer and the same plan (peer mode
    'ref': separate hit counters, nothing logged);
  * a *verdict model* over the per-statement results (want windows, expected
    exceptions), which stays silent where the documentation does not fix the
    meaning (see DESIGN.md 5.3).
"""
import ast
import asyncio
import contextlib
import io
import sys
import traceback
import warnings
from inspect import CO_COROUTINE

import directives as D
import seams
import world as W
from peer import PEER

TB_KINDS = {'tb', 'tbstack', 'tbbare', 'tbell', 'tbwrongmsg', 'tbwrongtype', 'tbdetail', 'tbdots', 'tbdotssuffix', 'tbinner', 'tbell2', 'tbmember'}
# 'tbdotsonly' (header + ellipsis, no final line) is deliberately absent: it is not a traceback block


class Expect:
    def __init__(self):
        self.verdict = None          # passed | failed | skipped | raises | None (silent)
        self.exc_names = None        # acceptable exception class names
        self.gotwant = None          # True: must be got/want; False: must not be; None: either
        self.fail_step = None
        self.lines = None            # (lo, hi) acceptable failing file line
        self.hits = []
        self.step_out = []           # (step index, text, alternative text or None)
        self.bindings = None
        self.names = []
        self.silent = set()
        self.executed_steps = []
        self.notes = []
        self.early_exit = False
        self.raises = None           # class name of a BaseException that must propagate


def step_source(st):
    lines = W.form_lines(st)
    src = []
    inline = W.directive_text(st['inline']) if st.get('inline') else None
    n = len(lines)
    for j, (text, prefixed) in enumerate(lines):
        if inline and ((st.get('inline_at', 'last') == 'last' and j == n - 1) or
                       (st.get('inline_at') == 'first' and j == 0)):
            text = text + '  # xdoctest: ' + inline
        src.append(text)
    return '\n'.join(src) + '\n'


FLAGS = ast.PyCF_ALLOW_TOP_LEVEL_AWAIT
import re as _re
ANSI_RE = _re.compile(r'\x1b\[[0-9;]*m')


def ref_exec_step(st, ns):
    """-> dict(out, exc, value_repr, has_value, compile_error)"""
    src = step_source(st)
    res = {'out': '', 'exc': None, 'value_repr': None, 'has_value': False, 'compile_error': None}
    try:
        tree = ast.parse(src)
    except SyntaxError as ex:
        res['compile_error'] = ex
        return res
    body = tree.body
    last_expr = None
    if body and isinstance(body[-1], ast.Expr) and len(body) == 1:
        last_expr = ast.Expression(body[-1].value)
        body = body[:-1]
    # one stream for the whole reference execution (a statement may keep a reference to
    # sys.stdout and write through it later): this step's output is what gets appended
    buf = ns.setdefault('__ref_stdout__', io.StringIO())
    pos0 = len(buf.getvalue())
    old = sys.stdout
    sys.stdout = buf
    try:
        try:
            if body:
                code = compile(ast.Module(body, []), '<ref>', 'exec', flags=FLAGS, dont_inherit=True)
                _run(code, ns)
            if last_expr is not None:
                code = compile(last_expr, '<ref>', 'eval', flags=FLAGS, dont_inherit=True)
                val = _run(code, ns)
                res['has_value'] = val is not None
                if val is not None:
                    try:
                        res['value_repr'] = repr(val)
                    except Exception as ex:
                        res['value_repr'] = ('<repr raised>', type(ex).__name__)
        except SyntaxError as ex:
            if getattr(ex, 'filename', None) == '<ref>':
                res['compile_error'] = ex
            else:
                res['exc'] = ex
        except BaseException as ex:       # noqa
            res['exc'] = ex
    finally:
        sys.stdout = old
    res['out'] = buf.getvalue()[pos0:]
    return res


def _run(code, ns):
    if code.co_flags & CO_COROUTINE == CO_COROUTINE:
        return asyncio.run(eval(code, ns))
    return eval(code, ns)


def fresh_namespace(modtext, modname):
    ns = {'__name__': modname}
    code = compile(modtext, '<refmod:%s>' % modname, 'exec', dont_inherit=True)
    exec(code, ns)
    return ns


def exc_identity(ex):
    """(qualified class name as printed, message line(s)) of an exception"""
    line = traceback.format_exception_only(type(ex), ex)[-1].rstrip('\n')
    return line


def tb_matches(st, ex, flags):
    """does the traceback want of this step match the raised exception?
    Decided by construction: identical / unique-different / prefix...  ->
    True / False / None (silent)"""
    kind = st['want']
    nominal = W.exc_last_line(st['exc']) if kind != 'tbinner' else W.inner_last_line(st)
    got = exc_identity(ex)
    nom_cls = nominal.split(':', 1)[0].strip()
    got_cls = got.split(':', 1)[0].split('\n', 1)[0].strip()
    same_cls_short = nom_cls.rsplit('.', 1)[-1] == got_cls.rsplit('.', 1)[-1]
    ied = flags['IGNORE_EXCEPTION_DETAIL']
    if kind == 'tbdotssuffix':
        return False
    if kind == 'tbmember':
        # the want describes the member, the exception raised is the group
        return (got_cls.rsplit('.', 1)[-1] == 'ValueError') if ied else False
    if kind == 'tbell2':
        # (the last word would have to occur twice)
        if ied:
            return same_cls_short
        return False
    if kind == 'tbinner':
        # the want names the exception that was being handled; what matters is the one raised
        if got == nominal:
            return True
        return same_cls_short if ied else False
    if kind in ('tb', 'tbstack', 'tbbare', 'tbdots'):
        if got == nominal:
            return True
        if ied:
            return same_cls_short
        return False
    if kind == 'tbell':
        head = nominal.split(': ', 1)
        prefix = head[0] + ': ' + head[1][:4]
        if flags['ELLIPSIS'] and got.startswith(prefix):
            return True
        if ied:
            return same_cls_short
        return False
    if kind == 'tbwrongmsg':
        return same_cls_short if ied else False
    if kind == 'tbwrongtype':
        return False
    if kind == 'tbdetail':
        return same_cls_short if ied else False
    return None


def model_run(dt, meta, dtid, k, ctx, modtext, modname):
    """ctx: env, defaults, in_loop, import_fails, mode"""
    E = Expect()
    steps = dt['steps']
    msteps = meta['steps']
    PEER.mode = 'ref'
    PEER.ctx.append((dtid, k))
    PEER.ref_hits = []
    PEER.ref_names = []
    for key in [x for x in PEER.counters if x[0] == 'ref']:
        del PEER.counters[key]
    seams.MUTED[0] = True
    try:
        with warnings.catch_warnings():
            # warnings of the reference execution are not shown anywhere (filters the
            # doctest itself installs afterwards still take precedence)
            warnings.simplefilter('ignore')
            _model_loop(E, dt, steps, msteps, dtid, k, ctx, modtext, modname)
    finally:
        seams.MUTED[0] = False
        PEER.mode = 'real'
        PEER.ctx.pop()
    E.hits = list(PEER.ref_hits)
    E.names = list(PEER.ref_names)
    return E


def _fail(E, idx, names, gotwant, lines):
    E.verdict = 'failed'
    E.exc_names = set(names)
    E.gotwant = gotwant
    E.fail_step = idx
    E.lines = lines


def _model_loop(E, dt, steps, msteps, dtid, k, ctx, modtext, modname):
    import harness
    env = ctx.get('env', {})
    m = D.Machine(env, ctx.get('defaults'))
    ns = None
    window = []         # actual outputs since the previous want
    window_keep = []    # the same, if an expected exception does *not* close the window
    anything = False
    for idx, st in enumerate(steps):
        ms = msteps[idx]
        if st['form'] == 'directive':
            bad = m.block(st['dirs'])
            if bad:
                _fail(E, idx, ['Exception'], False, (ms['first'], ms['last']))
                E.notes.append('malformed block directive')
                break
            continue
        flags, req, bad = m.effective(st.get('inline'))
        if bad:
            _fail(E, idx, ['Exception'], False, (ms['first'], ms['last']))
            E.notes.append('malformed inline directive')
            break
        if not D.Machine.runs(flags, req):
            continue
        if st['form'] in ('comment', 'blankprompt'):
            continue
        # ---- the statement executes
        if ns is None:
            if ctx.get('import_fails'):
                _fail(E, idx, ctx['import_fails'], False, None)
                E.notes.append('import of the module under test fails')
                E.silent.add('line')
                break
            ns = fresh_namespace(modtext, modname)
        if ctx.get('in_loop') and st['form'] in W.ASYNC_FORMS:
            names = ['ExistingEventLoopError']
            if (st.get('want') or '').startswith('tb'):
                # the documented error is itself compared with a traceback want
                names.append('GotWantException')
            _fail(E, idx, names, None if len(names) > 1 else False, None)
            E.silent.add('line')
            E.notes.append('top-level await while the caller runs a loop')
            anything = True
            break
        anything = True
        E.executed_steps.append(idx)
        res = ref_exec_step(st, ns)
        want = st.get('want') if ms.get('want_text') else None
        want_text = ms.get('want_text')
        if res['compile_error'] is not None:
            _fail(E, idx, ['SyntaxError'], False, (ms['first'], ms['last']))
            E.notes.append('statement does not compile')
            break
        ex = res['exc']
        alt = None
        if want and st['form'] in W.VALUE_FORMS and res['has_value'] and isinstance(res['value_repr'], str):
            # a multi-line '...' continued expression with a want is run in REPL
            # ('single') mode, where the value is echoed to stdout
            alt = res['out'] + res['value_repr'] + '\n'
        E.step_out.append((idx, res['out'], alt))
        if ex is not None:
            if not isinstance(ex, Exception):
                # Skipped (pytest) derives from BaseException but ends the test quietly
                if type(ex).__name__ == 'Skipped':
                    E.early_exit = True
                    break
                E.verdict = 'raises'
                E.raises = type(ex).__name__
                E.fail_step = idx
                break
            if type(ex).__name__ == 'ExitTestException':
                E.early_exit = True
                break
            if want in TB_KINDS:
                mt = tb_matches(st, ex, flags)
                if mt is True:
                    # "since the previous want": an expected-exception want is a want -- or is it?
                    # The statement does not say; window_keep remembers the other reading.
                    window = []  # keep: window_keep
                    continue
                if mt is None:
                    E.silent.add('verdict')
                    break
                # mismatching traceback want: the property lets it fail "with that
                # exception"; xdoctest reports a got/want error.  Either.
                _fail(E, idx, ['GotWantException', type(ex).__name__], None, None)
                E.lines = (min(ms['first'], ms['want_line'] or ms['first']), max(ms['last'], ms['want_line'] or ms['last']))
                break
            _fail(E, idx, [type(ex).__name__], False, (ms['first'], ms['last']))
            break
        # ---- no exception
        if isinstance(res['value_repr'], tuple) and (not want or flags['IGNORE_WANT']) and st['form'] in W.VALUE_FORMS \
                and len(W.form_lines(st)) > 1 and st.get('ps2'):
            # nothing asks for the value's repr -- unless the statement runs in REPL mode (a
            # '...'-continued expression does), where echoing the value calls it: not fixed (F6)
            E.silent.add('verdict')
            E.notes.append('raising repr of a value nobody compares, in a statement that may be echoed: model silent')
            break
        if not want:
            window.append(res['out'])
            window_keep.append(res['out'])
            continue
        if flags['IGNORE_WANT']:
            window = []
            window_keep = []
            continue
        if want in TB_KINDS:
            if isinstance(res['value_repr'], tuple):
                # nothing raised, and the value's repr raises while it is compared
                _fail(E, idx, ['GotWantException', 'ExtractGotReprException', res['value_repr'][1]], None,
                      (ms['first'], ms['want_line']))
            else:
                _fail(E, idx, ['GotWantException'], True, (ms['want_line'], ms['want_line']))
            E.notes.append('traceback want but nothing raised')
            break
        if want == 'none':
            # the value of the expression statement is None and its repr is the want
            # (only generated where the statement is evaluated as an expression, not in REPL mode)
            if W.is_expr(st) and not res['has_value']:
                window = []
                window_keep = []
                continue
            _fail(E, idx, ['GotWantException'], True, (ms['want_line'], ms['want_line']))
            break
        if want == 'coro':
            # by construction: the value's repr starts with the spelled-out prefix; the
            # address is covered by the ellipsis iff ELLIPSIS is on
            ok = flags['ELLIPSIS'] and isinstance(res['value_repr'], str) and res['value_repr'].startswith('<coroutine object Peer.aop at ')
            if ok:
                window = []
                window_keep = []
                continue
            _fail(E, idx, ['GotWantException'], True, (ms['want_line'], ms['want_line']))
            break
        if want == 'ell':
            # decided by construction: 'prefix...' equals the output iff the ellipsis is a
            # wildcard (ELLIPSIS on) and the output starts with that prefix
            pre = W.ell_prefix(st)
            if st.get('want_corrupt'):
                E.silent.add('verdict')
                break
            if flags['ELLIPSIS'] and ANSI_RE.sub('', res['out']).startswith(pre):
                window = []
                window_keep = []
                continue
            _fail(E, idx, ['GotWantException'], True, (ms['want_line'], ms['want_line']))
            break
        full = ANSI_RE.sub('', ''.join(window + [res['out']])).replace('\r\n', '\n')
        wt = want_text + '\n'
        vr = res['value_repr']

        def same(a, b):
            # exact up to the final line break (an unfinished last line is still that line)
            # and up to terminal colour codes, which the comparison always removes
            return ANSI_RE.sub('', a).replace('\r\n', '\n').rstrip('\n') == ANSI_RE.sub('', b).replace('\r\n', '\n').rstrip('\n')
        if isinstance(vr, tuple):
            # repr raised: only consulted when stdout does not settle it
            if res['out'] and (same(full, wt) or same(res['out'], wt)):
                window = []
                window_keep = []
                continue
            _fail(E, idx, ['ExtractGotReprException', vr[1]], False, (ms['first'], ms['last']))
            E.notes.append('repr of the value raised')
            break
        ok_full = same(full, wt)
        ok_last = W.is_expr(st) and same(res['out'], wt)
        ok_repr = vr is not None and same(vr, wt)
        if ok_full or ok_last or ok_repr:
            if alt is not None and not (same(''.join(window) + alt, wt) or same(alt, wt)):
                # satisfied only if the value is *not* echoed: in REPL mode the echoed value is part
                # of what was written, and which mode a statement runs in is not fixed (F6): silent
                E.silent.add('verdict')
                E.notes.append('want satisfied only without the echoed value: model silent')
                break
            window = []
            window_keep = []
            continue
        # "printed text then echoed value": satisfied in REPL mode only, and which
        # mode a statement runs in is not what the documentation fixes (F6): silent
        if alt is not None and (same(''.join(window) + alt, wt) or same(alt, wt)):
            E.silent.add('verdict')
            E.notes.append('want is text + echoed value: model silent')
            break
        if full.rstrip('\n').endswith(wt.rstrip('\n')) or (alt is not None and (''.join(window) + alt).rstrip('\n').endswith(wt.rstrip('\n'))):
            # want equals a trailing portion of the output that is none of the
            # three documented forms: the property neither requires pass nor fail
            E.silent.add('verdict')
            E.notes.append('want is a proper suffix of the window: model silent')
            break
        fullk = ''.join(window_keep + [res['out']])
        if fullk != full and fullk.rstrip('\n').endswith(wt.rstrip('\n')):
            # only text from before an expected exception makes the difference: whether such a
            # want closes the output window is not what the statement fixes
            E.silent.add('verdict')
            E.notes.append('want reaches back across an expected exception: model silent')
            break
        _fail(E, idx, ['GotWantException'], True, (ms['want_line'], ms['want_line']))
        break
    if 'verdict' in E.silent:
        # the flow after this point is not fixed by the documentation
        E.silent.update(['hits', 'stdout', 'bindings', 'line'])
    if E.verdict is None and 'verdict' not in E.silent:
        E.verdict = 'passed' if anything else 'skipped'
    if ns is not None:
        E.bindings = harness.snapshot_bindings(ns)
