"""The scripted peer ``_xdsim``: the code under test, as seen by xdoctest.

Generated modules do ``import _xdsim as S`` and every doctest statement calls
one of the functions below with a point id.  What the call does is decided by
the scenario's plan, addressed by (doctest id, k-th execution, point, n-th hit).
The peer also keeps the ground-truth history: which points were hit, in which
order, under which capture, and what text it really wrote.
"""
import asyncio
import io
import os
import sys
import types
import warnings

from seams import LOG, SimLoop

MODNAME = '_xdsim'


class Val:
    """Answer object: repr and str differ beyond quotes."""
    __slots__ = ('t',)

    def __init__(self, t):
        self.t = t

    def __repr__(self):
        return '<%s>' % self.t

    def __str__(self):
        return self.t

    def __eq__(self, other):
        return isinstance(other, Val) and other.t == self.t

    def __hash__(self):
        return hash(self.t)


class BadRepr:
    def __init__(self, t):
        self.t = t

    def __repr__(self):
        raise RuntimeError('sim: repr failed for ' + self.t)

    def __str__(self):
        return self.t


class WriteOnly:
    """a stand-in for sys.stdout that can only be written to"""

    def __init__(self):
        self.chunks = []

    def write(self, text):
        self.chunks.append(text)
        return len(text)


class SimBaseExc(BaseException):
    """A BaseException that is neither KeyboardInterrupt nor SystemExit."""


class SimValueSub(ValueError):
    """a subclass of a builtin exception class"""


class SimError(Exception):
    """Exception class 'defined by the library under test' (module qualified)."""


class ACtx:
    """async context manager / async iterator over peer points"""

    def __init__(self, peer, pids):
        self.peer = peer
        self.pids = list(pids)
        self.i = 0

    async def __aenter__(self):
        return await self.peer.aop(self.pids[0])

    async def __aexit__(self, *a):
        await self.peer.aop(self.pids[-1])
        return False

    def __aiter__(self):
        return self

    async def __anext__(self):
        if self.i >= len(self.pids):
            raise StopAsyncIteration
        pid = self.pids[self.i]
        self.i += 1
        return await self.peer.aop(pid)


def tok(pid, n=0, wrong=False):
    return ('Wr' if wrong else 'Tk') + pid + ('n%d' % n if n else '') + 'z'


BUILTIN_EXC = {
    'ValueError': ValueError, 'KeyError': KeyError, 'ZeroDivisionError': ZeroDivisionError,
    'AssertionError': AssertionError, 'TypeError': TypeError, 'RuntimeError': RuntimeError,
    'IndexError': IndexError, 'MemoryError': MemoryError, 'RecursionError': RecursionError,
    'KeyboardInterrupt': KeyboardInterrupt, 'SystemExit': SystemExit, 'OSError': OSError,
    'ImportError': ImportError, 'SimBaseExc': SimBaseExc, 'SimError': SimError, 'SimValueSub': SimValueSub,
    'NameError': NameError, 'AttributeError': AttributeError, 'StopIteration': StopIteration,
    'LookupError': LookupError, 'ArithmeticError': ArithmeticError,
}


class Peer:
    def __init__(self):
        self.reset()

    def reset(self):
        self.plan = {}            # (dtid, k, pid, n) -> fault dict
        self.import_plan = {}     # modname -> behaviour dict
        self.ctx = []             # stack of (dtid, k), pushed by the run wrapper
        self.mode = 'real'        # 'real' | 'ref'
        self.counters = {}
        self.hits = []            # hits of the current real execution
        self.ref_hits = []
        self.fired = []           # faults that actually fired (kind, dtid, k, pid)
        self.writes = []          # (dtid, k, pid, text, complete) ground truth of peer writes
        self.names_seen = []      # (dtid, k, pid, sorted sim_* names)
        self.modglobals = []
        self.run_stdout = []      # stack: what sys.stdout was when the running DocTest.run was entered
        self.violations = []      # invariant violations found at hit time (rule, detail)
        self.doc_owner = lambda pid: None   # pid -> dtid owning that point (set by harness)
        self.import_log = []      # (modname, action, value)
        self.kept_streams = []    # streams the code under test keeps across doctests

    # -- context ---------------------------------------------------------
    def cur(self):
        return self.ctx[-1] if self.ctx else (None, None)

    def _hit(self, pid):
        dtid, k = self.cur()
        key = (self.mode, dtid, k, pid)
        n = self.counters.get(key, 0)
        self.counters[key] = n + 1
        if self.mode == 'ref':
            self.ref_hits.append((pid, n))
            return dtid, k, n
        out = sys.stdout
        # 'capture active' without naming an implementation: some stream other than the
        # one that was installed when run() was entered is receiving the doctest's output
        cap_active = bool(self.run_stdout) and out is not self.run_stdout[-1]
        try:
            running = asyncio._get_running_loop() is not None
        except Exception:
            running = False
        self.hits.append((pid, n))
        LOG.add('hit', dtid, k, pid, n, type(out).__name__, running)
        owner = self.doc_owner(pid)
        if dtid is None:
            self.violations.append(('C01.R3', 'point %s hit while no doctest is running' % pid))
        elif owner is not None and owner != dtid:
            self.violations.append(('C01.R3', 'point %s of %s hit while %s is running' % (pid, owner, dtid)))
        if dtid is not None and not cap_active and not self._stdout_was_swapped:
            self.violations.append(('C01.R3', 'point %s hit while capture not active (sys.stdout is %s)'
                                    % (pid, type(out).__name__)))
        return dtid, k, n

    _stdout_was_swapped = False

    def _fault(self, dtid, k, pid, n):
        f = self.plan.get((dtid, k, pid, n))
        if f is None:
            return None
        if self.mode == 'real':
            self.fired.append((f['kind'], dtid, k, pid))
            LOG.add('fault', f['kind'], dtid, k, pid, f.get('exc'))
        return f

    def _make_exc(self, f, frame_globals=None):
        name = f.get('exc', 'ValueError')
        msg = f.get('msg')
        if name.startswith('doc:'):
            cls = (frame_globals or {}).get(name[4:].rsplit('.', 1)[-1])
            if cls is None:
                cls = SimError
        elif name.startswith('mod:'):
            modname, attr = name[4:].rsplit('.', 1)
            cls = getattr(sys.modules[modname], attr)
        elif name == 'ExitTestException':
            from xdoctest import exceptions
            cls = exceptions.ExitTestException
        elif name == 'Skipped':
            from xdoctest import exceptions
            cls = exceptions._pytest.outcomes.Skipped
        elif name == 'Group1':
            # an exception group with a single member
            return ExceptionGroup(msg or 'grp', [ValueError('member of ' + (msg or 'grp'))])
        elif name == 'Failed':
            # what pytest.fail() raises: a BaseException that is not a graceful exit
            from _pytest.outcomes import Failed
            cls = Failed
        else:
            cls = BUILTIN_EXC[name]
        if cls is SystemExit:
            return SystemExit(f.get('code', 3))
        if msg is None:
            return cls()
        return cls(msg)

    def _misbehave_pre(self, f, pid, n, frame_globals):
        """Things that happen instead of / before answering. Returns an
        override value or None."""
        kind = f['kind']
        if kind in ('raise', 'interrupt', 'early_exit'):
            exc = self._make_exc(f, frame_globals)
            depth = f.get('depth', 0)
            if depth:
                _raise_via(exc, depth)
            raise exc
        if kind == 'swap_stdout':
            if self.mode == 'real':
                self._stdout_was_swapped = True
                sys.stdout = io.StringIO() if f.get('how') != 'writeonly' else WriteOnly()
                if f.get('how') == 'closed':
                    # ... and the code under test closes its own stream when done
                    sys.stdout.close()
            return None
        if kind == 'close_stdout':
            # code under test that closes whatever it finds in sys.stdout when it is done
            if self.mode == 'real':
                self._stdout_was_swapped = True
                sys.stdout.close()
            return None
        if kind == 'warn_filters':
            how = f.get('how', 'simplefilter')
            if how == 'simplefilter':
                warnings.simplefilter('error')
            elif how == 'insert':
                warnings.filterwarnings('ignore', message='sim-' + pid)
            elif how == 'reset':
                warnings.resetwarnings()
            return None
        if kind == 'warn':
            warnings.warn('sim warning at ' + pid, UserWarning)
            return None
        if kind == 'rmcwd':
            # code under test that works inside a temporary directory and leaves the process
            # there after the directory is gone
            if self.mode == 'real':
                import tempfile
                d = tempfile.mkdtemp(prefix='gone', dir=LOG.root)
                os.chdir(d)
                os.rmdir(d)
            return None
        return None

    # -- API used by generated code ---------------------------------------
    def op(self, pid):
        dtid, k, n = self._hit(pid)
        f = self._fault(dtid, k, pid, n)
        if f is not None:
            self._misbehave_pre(f, pid, n, sys._getframe(1).f_globals)
            if f['kind'] == 'wrong':
                return Val(tok(pid, n, wrong=True))
            if f['kind'] == 'bad_repr':
                return BadRepr(tok(pid, n))
            if f['kind'] == 'nonascii':
                # an answer the source text does not show: it has a character outside ascii
                return Val(tok(pid, n) + ' \u2192')
        return Val(tok(pid, n))

    def emit(self, pid):
        dtid, k, n = self._hit(pid)
        f = self._fault(dtid, k, pid, n)
        lines = [tok(pid, n)]
        if f is not None:
            self._misbehave_pre(f, pid, n, sys._getframe(1).f_globals)
            kind = f['kind']
            if kind == 'wrong':
                lines = [tok(pid, n, wrong=True)]
            elif kind == 'extra_line':
                lines = [tok(pid, n), tok(pid, n, wrong=True)]
            elif kind == 'prepend_line':
                lines = [tok(pid, n, wrong=True), tok(pid, n)]
            elif kind in ('mute', 'drop_line'):
                lines = []
            elif kind == 'ansi':
                # the right answer, in colour (terminal escape codes are not content)
                lines = ['\x1b[32m' + tok(pid, n) + '\x1b[0m']
        text = ''.join(l + '\n' for l in lines)
        if text:
            self._write(dtid, k, pid, text)

    def emitop(self, pid):
        """prints its token *and* returns a value (code that does both)"""
        dtid, k, n = self._hit(pid)
        f = self._fault(dtid, k, pid, n)
        text = tok(pid, n) + '\n'
        val = Val(tok(pid, n))
        if f is not None:
            self._misbehave_pre(f, pid, n, sys._getframe(1).f_globals)
            kind = f['kind']
            if kind == 'wrong':
                text = tok(pid, n, wrong=True) + '\n'
                val = Val(tok(pid, n, wrong=True))
            elif kind in ('mute', 'drop_line'):
                text = ''
            elif kind == 'extra_line':
                text = text + tok(pid, n, wrong=True) + '\n'
            elif kind == 'prepend_line':
                text = tok(pid, n, wrong=True) + '\n' + text
            elif kind == 'bad_repr':
                val = BadRepr(tok(pid, n))
        if text:
            self._write(dtid, k, pid, text)
        return val

    def emitcr(self, pid):
        """writes its token followed by carriage return + line feed"""
        dtid, k, n = self._hit(pid)
        f = self._fault(dtid, k, pid, n)
        text = tok(pid, n) + '\r\n'
        if f is not None:
            self._misbehave_pre(f, pid, n, sys._getframe(1).f_globals)
            if f['kind'] == 'wrong':
                text = tok(pid, n, wrong=True) + '\r\n'
            elif f['kind'] in ('mute', 'drop_line'):
                text = ''
        if text:
            self._write(dtid, k, pid, text)

    def keepstream(self, stream, pid):
        self._hit(pid)
        if self.mode == 'real':
            self.kept_streams.append(stream)

    def writekept(self, pid):
        """writes to every stream kept so far; like logging, it swallows the error of a stream
        that has been closed meanwhile"""
        dtid, k, n = self._hit(pid)
        if self.mode != 'real':
            return
        for stream in list(self.kept_streams):
            try:
                stream.write(tok(pid, n) + '\n')
            except ValueError:
                pass

    def emitnoeol(self, pid):
        """writes its token without finishing the line"""
        dtid, k, n = self._hit(pid)
        f = self._fault(dtid, k, pid, n)
        text = tok(pid, n)
        if f is not None:
            self._misbehave_pre(f, pid, n, sys._getframe(1).f_globals)
            if f['kind'] == 'wrong':
                text = tok(pid, n, wrong=True)
            elif f['kind'] in ('mute', 'drop_line'):
                text = ''
        if text:
            self._write(dtid, k, pid, text)

    async def abg(self, pid, pid_cleanup):
        """body of a background task: waits (virtually) for an hour; when it is
        cancelled its clean-up code runs and writes a line"""
        dtid, k, n = self._hit(pid)
        try:
            await asyncio.sleep(3600)
        finally:
            dtid2, k2, n2 = self._hit(pid_cleanup)
            self._write(dtid2, k2, pid_cleanup, tok(pid_cleanup, n2) + '\n')

    def deco(self, pid):
        """decorator factory: evaluating the decorator expression is a hit"""
        dtid, k, n = self._hit(pid)
        f = self._fault(dtid, k, pid, n)
        if f is not None:
            self._misbehave_pre(f, pid, n, sys._getframe(1).f_globals)
        return lambda obj: obj

    def writeto(self, stream, pid):
        """module code that writes to a stream it bound when it was imported (a default
        argument, a logging handler): on the unchanged tree that is whatever sys.stdout
        was at import time, never a doctest's capture"""
        dtid, k, n = self._hit(pid)
        if self.mode == 'ref':
            return
        try:
            stream.write(tok(pid, n) + '\n')
        except ValueError:
            # the stream was closed meanwhile
            raise

    def sayval(self, pid):
        """returns a plain, shared (non-unique) string value"""
        dtid, k, n = self._hit(pid)
        f = self._fault(dtid, k, pid, n)
        if f is not None:
            self._misbehave_pre(f, pid, n, sys._getframe(1).f_globals)
            if f['kind'] == 'wrong':
                return 'wrong'
        return 'okay'

    def say(self, text, pid):
        """prints a shared, non-unique line"""
        dtid, k, n = self._hit(pid)
        f = self._fault(dtid, k, pid, n)
        if f is not None:
            self._misbehave_pre(f, pid, n, sys._getframe(1).f_globals)
            if f['kind'] in ('mute', 'drop_line'):
                return
            if f['kind'] == 'wrong':
                text = 'Wr' + text
        self._write(dtid, k, pid, text + '\n')

    def _write(self, dtid, k, pid, text):
        if self.mode == 'real':
            rec = [dtid, k, pid, text, False]
            self.writes.append(rec)
            self._emit_text(pid, text)
            rec[4] = True
        else:
            self._emit_text(pid, text)

    @staticmethod
    def _emit_text(pid, text):
        """code under test writes in different ways; which one is a fixed function
        of the point, so that every run of the same world writes the same way"""
        style = sum(ord(c) for c in pid) % 7
        out = sys.stdout
        if style == 0 or not text:
            out.write(text)
        elif style == 1:
            print(text, end='')
        elif style == 2 and text.endswith('\n'):
            print(text[:-1])                    # the text, then the line break: two writes
        elif style == 3:
            out.writelines(piece for piece in (text[:3], text[3:]))     # a one-shot iterable
        elif style == 4:
            out.write(text[:2])
            out.flush()
            out.write(text[2:])
        elif style == 5:
            print(text, end='', file=out, flush=True)
        else:
            # from a worker thread that is joined before the statement goes on
            # (an error in the worker is handed back to the caller, as a future's result() does)
            import threading
            box = []

            def work():
                try:
                    out.write(text)
                except BaseException as ex:     # noqa
                    box.append(ex)
            t = threading.Thread(target=work)
            t.start()
            t.join()
            if box:
                raise box[0]

    async def aop(self, pid, delay=None):
        dtid, k, n = self._hit(pid)
        f = self._fault(dtid, k, pid, n)
        d = delay
        if f is not None and f['kind'] == 'sleep':
            d = f.get('delay', 1.0)
        if d:
            await asyncio.sleep(d)
        else:
            await asyncio.sleep(0)
        # the order in which suspended awaiters resume is part of the history
        if self.mode == 'ref':
            self.ref_hits.append(('~' + pid, n))
        else:
            self.hits.append(('~' + pid, n))
            LOG.add('resumed', dtid, k, pid, n)
        if f is not None:
            self._misbehave_pre(f, pid, n, None)
            if f['kind'] == 'wrong':
                return Val(tok(pid, n, wrong=True))
        return Val(tok(pid, n))

    def actx(self, *pids):
        return ACtx(self, pids)

    def point(self, pid):
        dtid, k, n = self._hit(pid)
        f = self._fault(dtid, k, pid, n)
        if f is not None:
            self._misbehave_pre(f, pid, n, sys._getframe(1).f_globals)

    def names(self, g, pid):
        dtid, k, n = self._hit(pid)
        seen = sorted(x for x in g if x.startswith('sim_'))
        if self.mode == 'real':
            self.names_seen.append((dtid, k, pid, seen))
            LOG.add('names', dtid, k, pid, seen)
        else:
            self.ref_names.append((pid, seen))

    ref_names = []

    def modglobal(self, modname, pid):
        dtid, k, n = self._hit(pid)
        mod = sys.modules.get(modname)
        val = getattr(mod, 'G', '<unset>')
        val = str(val)
        # ... and which Sim*/sim* names the module under test currently has
        names = ','.join(sorted(x for x in (vars(mod) if mod is not None else {}) if x.lower().startswith('sim')))
        if self.mode == 'real':
            self.modglobals.append((dtid, k, pid, val, names))
            LOG.add('modglobal', dtid, k, pid, val, names)
        return val

    # -- module import bodies ----------------------------------------------
    def importing(self, modname):
        """called at the top of every generated module body"""
        if self.mode == 'ref':
            return
        b = self.import_plan.get(modname)
        LOG.add('import_body', modname, b['kind'] if b else 'ok')
        self.import_log.append((modname, 'body', None))
        if not b:
            return
        kind = b['kind']
        if kind == 'syspath':
            how = b['how']
            if how == 'insert0':
                sys.path.insert(0, '/sim/extra/' + modname)
                self.import_log.append((modname, 'added', '/sim/extra/' + modname))
            elif how == 'append':
                sys.path.append('/sim/extra/' + modname)
                self.import_log.append((modname, 'added', '/sim/extra/' + modname))
            elif how == 'remove_tmp':
                tmp = b.get('_tmp')
                if tmp and tmp in sys.path:
                    # the entry xdoctest added for this import (not an equal one the user
                    # already had): the last occurrence if it was appended, else the first
                    if b.get('_index', -1) == -1:
                        pos = len(sys.path) - 1 - sys.path[::-1].index(tmp)
                    else:
                        pos = sys.path.index(tmp)
                    del sys.path[pos]
                    # (not an entry the process had before: nothing to subtract, but the
                    # module body did edit sys.path)
                    self.import_log.append((modname, 'removed_tmp', tmp))
            elif how == 'rebind':
                # the module replaces the list object itself
                sys.path = list(sys.path)
            elif how == 'dup_tmp':
                tmp = b.get('_tmp')
                if tmp:
                    sys.path.insert(0, tmp)
                    self.import_log.append((modname, 'added', tmp))
            if self.mode == 'real':
                self.fired.append(('import_syspath', None, None, modname))
            if not b.get('then_raise'):
                return
            kind = 'raise'
            b = dict(b, exc=b['then_raise'])
        if kind == 'raise':
            if self.mode == 'real':
                self.fired.append(('import_fail', None, None, modname))
            exc = self._make_exc({'exc': b.get('exc', 'ImportError'), 'msg': 'sim import failure in ' + modname})
            raise exc
        if kind == 'print':
            sys.stdout.write('importing ' + modname + '\n')
        if kind == 'swap_stdout':
            # a module that wraps sys.stdout while it is being imported
            if self.mode == 'real':
                self.fired.append(('import_swap_stdout', None, None, modname))
                self.import_log.append((modname, 'swapstdout', None))
                sys.stdout = WriteOnly()
        if kind == 'warn_filters':
            # a module that installs a warning filter while it is being imported
            if self.mode == 'real':
                self.fired.append(('import_warn_filters', None, None, modname))
                self.import_log.append((modname, 'warnfilter', None))
            if b.get('how') == 'error':
                warnings.simplefilter('error')
            else:
                warnings.filterwarnings('ignore', message='sim-import-' + modname)
        if kind == 'warn':
            if self.mode == 'real':
                self.fired.append(('import_warn', None, None, modname))
            warnings.warn('sim: warning while importing ' + modname, UserWarning)


def _raise_via(exc, depth):
    if depth <= 1:
        raise exc
    _raise_via(exc, depth - 1)


PEER = Peer()


def install():
    """Create the module object `_xdsim` whose attributes forward to PEER."""
    mod = types.ModuleType(MODNAME)
    for name in ('op', 'emit', 'emitop', 'emitnoeol', 'emitcr', 'keepstream', 'writekept', 'abg', 'deco', 'sayval', 'writeto', 'say', 'aop', 'actx', 'point', 'names', 'modglobal', 'importing'):
        setattr(mod, name, getattr(PEER, name))
    mod.Val = Val
    mod.SimError = SimError
    mod.SimBaseExc = SimBaseExc
    mod.__file__ = __file__
    sys.modules[MODNAME] = mod
    return mod
