"""Helpers shared by the per-property profiles."""
import gen
import world as W


def viol(rule, detail, **where):
    return {'rule': rule, 'detail': detail, 'where': where}


def exec_label(e):
    return '%s#%d(op%s)' % (e['dtid'], e['k'], e['op'])


def how_ended(e):
    if e['how'] == 'returned':
        return 'returned:' + e['summary']['verdict'] + (':' + e['summary'].get('exc_type', '') if e['summary']['verdict'] == 'failed' else '')
    return 'raised:' + str(e['exc'])


def anything_executed(rec):
    return any(e['hits'] for e in rec['execs'])


def pos_class(i, n):
    if n <= 1:
        return 'only'
    if i == 0:
        return 'first'
    if i == n - 1:
        return 'last'
    return 'middle'


def fired_kinds(rec):
    out = {}
    for f in rec['fired']:
        out[f[0]] = out.get(f[0], 0) + 1
    return out


def predicted_execs(world, ops):
    """Which (dtid, k) executions a history will perform, assuming nothing
    aborts a runner loop.  Used only to address plan entries."""
    counts = {}
    out = []
    by_mod = {}
    for dtid, dt, mod in W.iter_doctests(world):
        by_mod.setdefault(mod['relpath'], []).append((dtid, dt))
    for idx, op in enumerate(ops):
        if op['op'] == 'run_obj':
            k = counts.get(op['dt'], 0)
            counts[op['dt']] = k + 1
            out.append((op['dt'], k, idx))
        elif op['op'] in ('runner', 'cli'):
            target = op.get('target')
            cmd = op.get('command', 'all')
            if op['op'] == 'cli':
                target = [a[5:] for a in op['argv'] if a.startswith('PATH:')][0]
                argv = op['argv']
                rest = [a for a in argv if not a.startswith('PATH:') and not a.startswith('-')]
                cmd = rest[0] if rest else 'all'
                for flag in ('-c', '--command'):
                    if flag in argv:
                        cmd = argv[argv.index(flag) + 1]
            if cmd in ('list', 'dump'):
                continue
            under = [(dtid, dt) for rel, lst in sorted(by_mod.items())
                     if rel == target or rel.startswith(target.rstrip('/') + '/') for dtid, dt in lst]
            # the fallback: nothing documented matches the command -> functions callable without arguments
            zero = not any((cmd == 'all' and not dt.get('disabled')) or
                           cmd in (dtid.split('::')[1], dtid.split('::')[1].rsplit(':', 1)[0])
                           for dtid, dt in under if not dt.get('zero_arg'))
            if zero and cmd in ('zero-all', 'zero', 'zero_all', 'zero-args'):
                # (every generated module also has one helper that takes no arguments)
                for mod in world['modules']:
                    rel = mod['relpath']
                    if rel == target or rel.startswith(target.rstrip('/') + '/'):
                        dtid = '%s::simshadow:0' % mod['name']
                        k = counts.get(dtid, 0)
                        counts[dtid] = k + 1
                        out.append((dtid, k, idx))
            for rel, lst in sorted(by_mod.items()):
                if rel == target or rel.startswith(target.rstrip('/') + '/'):
                    for dtid, dt in lst:
                        if dt.get('zero_arg'):
                            if not zero or not (cmd in ('zero-all', 'zero', 'zero_all', 'zero-args') or
                                                cmd in (dtid.split('::')[1], dtid.split('::')[1].rsplit(':', 1)[0])):
                                continue
                        elif cmd == 'all':
                            if dt.get('disabled'):
                                continue
                        else:
                            callname = dtid.split('::')[1]
                            if cmd not in (callname, callname.rsplit(':', 1)[0]):
                                continue
                        k = counts.get(dtid, 0)
                        counts[dtid] = k + 1
                        out.append((dtid, k, idx))
    return out


def points_of(world, dtid):
    return [p for p in gen.all_points(world) if p['dtid'] == dtid]


def single_fault_variants(base, dtid, faults_for_point):
    """every single cooperative fault of a doctest: one explicit scenario per
    (point, fault) pair.  ``faults_for_point(p)`` -> list of fault dicts
    (without dt/k/pid)."""
    import copy
    out = []
    for p in points_of(base['world'], dtid):
        for f in faults_for_point(p):
            v = copy.deepcopy(base)
            g = dict(f, dt=dtid, k=0, pid=p['pid'])
            v['plan'] = [x for x in v.get('plan', []) if 'import' in x] + [g]
            out.append(v)
    return out
