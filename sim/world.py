"""Worlds: structured specs of generated packages, rendered deterministically
to Python files whose doctests call the scripted peer.

A world is JSON.  ``render_world`` turns it into {relpath: text} plus ``meta``:
for every doctest its id, the file line of its first prompt and, per step, the
file lines of the statement and of its want -- all *by construction*, i.e.
computed while the text is laid out, never read back from xdoctest.
"""
import json

from peer import tok
import directives as D

# ----------------------------------------------------------------------------
# step forms
# ----------------------------------------------------------------------------
# Each form: lines(step) -> list of (text, prefixed) ; points ; nominal output
# pids ; isexpr (statement is an expression statement -> split off as its own
# part when a want follows) ; value (pid whose Val is the expression's value).

TB_HEADER = 'Traceback (most recent call last):'


def directive_text(dirs):
    """dirs: list of [sign, NAME, arg-or-None]"""
    return ', '.join('%s%s%s' % (s, n, '(%s)' % a if a else '') for s, n, a in dirs)


SPELLINGS = ['xdoctest', 'xdoctest', 'xdoctest', 'doctest', 'xdoc', 'doc', 'XDOCTEST', 'XDoc']
PROSE = ['Some prose between the examples.', 'Some prose between the examples.', 'Note:', 'Returns:', 'Example:']


def directive_spelling(st):
    """every documented spelling of the directive prefix, a fixed function of the step"""
    if st.get('spelling'):
        return st['spelling']
    return SPELLINGS[(st['i'] * 7 + len(st.get('pts', [])) + len(st.get('dirs') or st.get('inline') or [])) % len(SPELLINGS)]


def _L(*texts):
    return [(t, True) for t in texts]


def form_lines(st):
    f = st['form']
    p = st.get('pts', [])
    i = st['i']
    if f == 'assign':
        return _L("sim_v%d = S.op('%s')" % (i, p[0]))
    if f == 'expr':
        return _L("S.op('%s')" % p[0])
    if f == 'sharedcall':
        # the same text in more than one doctest of the module
        return _L("modshared(1)")
    if f == 'zcall':
        # (the implicit example the native runner builds for a function callable without arguments)
        return _L("%s()" % st['name'])
    if f == 'print':
        return _L("print(S.op('%s'))" % p[0])
    if f == 'emit':
        return _L("S.emit('%s')" % p[0])
    if f == 'say':
        return _L("S.say('%s', '%s')" % (st.get('text', 'ok'), p[0]))
    if f == 'mkdel':
        # an object whose finaliser prints, reachable only through a cycle with the doctest's namespace
        return _L("sim_del%d = type('SimDel', (), {'__del__': lambda self: print('sim released %d'), '__repr__': lambda self: 'SimDel'})()" % (i, i))
    if f == 'gccollect':
        return _L("sim_gc%d = [__import__('gc').collect()][1:]" % i)
    if f == 'usestd':
        # what the name of a standard library module means to this doctest
        return _L("S.say(str(hasattr(__import__('colorsys'), 'rgb_to_hls')), '%s')" % p[0])
    if f == 'loopval':
        # a compound statement with a bare expression in its body, the same text wherever it
        # appears: echoed in REPL mode ('...' continuation), silent otherwise
        return _L("for sim_j in (1, 2):", "    sim_j")
    if f == 'sayval':
        # an expression whose value is the same plain string wherever it appears
        return _L("S.sayval('%s')" % p[0])
    if f == 'write':
        return _L("_ = sys.stdout.write(str(S.op('%s')) + chr(10))" % p[0])
    if f == 'for':
        return _L("for _p in ['%s', '%s']:" % (p[0], p[1]), "    S.emit(_p)")
    if f == 'if':
        return _L("if S.op('%s'):" % p[0], "    S.emit('%s')" % p[1], "else:", "    sim_e%d = 0" % i)
    if f == 'with':
        return _L("with open(os.devnull) as _f:", "    sim_w%d = S.op('%s')" % (i, p[0]))
    if f == 'try':
        return _L("try:", "    S.emit('%s')" % p[0], "finally:", "    S.emit('%s')" % p[1])
    if f == 'tryexc':
        # the doctest itself handles an exception raised by called code
        return _L("try:", "    sim_x%d = S.op('%s')" % (i, p[0]), "except LookupError:", "    S.emit('%s')" % p[1])
    if f == 'chainexc':
        # an exception raised while another one is being handled: the one that
        # propagates is the second, the first is only its context
        return _L("try:", "    sim_x%d = S.op('%s')" % (i, p[0]), "except Exception:", "    sim_y%d = S.op('%s')" % (i, p[1]))
    if f == 'multiline':
        return _L("S.op(", "    '%s'" % p[0], ")")
    if f == 'multicall':
        return _L("sim_q%d = [S.op('%s')," % (i, p[0]), "    S.op('%s')," % p[1], "    ]")
    if f == 'semi':
        return _L("sim_a%d = S.op('%s'); sim_b%d = S.op('%s')" % (i, p[0], i, p[1]))
    if f == 'semiemit':
        return _L("S.emit('%s'); S.emit('%s')" % (p[0], p[1]))
    if f == 'tq':
        return [("sim_t%d = str(S.op('%s')) + '''" % (i, p[0]), True),
                ("tail line %d" % i, False),
                ("'''", True)]
    if f == 'tqprint':
        return [("print(str(S.op('%s')) + '''" % p[0], True),
                ("tail%dline''')" % i, False)]
    if f == 'defhelper':
        deco = ['@simdeco'] if st.get('deco') else []
        pad = ['    _pad%d = %d' % (j, j) for j in range(st.get('pad', 0))]
        return _L(*(deco + ["def sim_h%d(pid):" % i] + pad + ["    return S.op(pid)"]))
    if f == 'defemit':
        pad = ['    _pad%d = %d' % (j, j) for j in range(st.get('pad', 0))]
        return _L(*(["def sim_h%d(pid):" % i] + pad + ["    S.emit(pid)"]))
    if f == 'callhelper':
        return _L("sim_c%d = sim_h%d('%s')" % (i, st['ref'], p[0]))
    if f == 'callhelper_expr':
        return _L("sim_h%d('%s')" % (st['ref'], p[0]))
    if f == 'callhelper_emit':
        return _L("sim_h%d('%s')" % (st['ref'], p[0]))
    if f == 'callmod':
        return _L("sim_m%d = modhelper%d('%s')" % (i, st.get('depth', 1), p[0]))
    if f == 'callmod_expr':
        return _L("modhelper%d('%s')" % (st.get('depth', 1), p[0]))
    if f == 'defclass':
        return _L("class SimDocErr(Exception):", "    pass")
    if f == 'comment':
        return _L("# comment %d%s" % (i, ' caf\u00e9' if st.get('nonascii') else ''))
    if f == 'modsay':
        # calls module code that writes to the stream the module bound at import time
        return _L("modsay('%s')" % p[0])
    if f == 'tqdirective':
        # a string literal with a line that *starts* like a directive comment
        return [("sim_td%d = str(S.op('%s')) + '''" % (i, p[0]), True),
                ("# xdoctest: +SKIP", False),
                ("'''", True)]
    if f == 'blankprompt':
        # one or two prompt lines with nothing after them
        return _L(*([''] * st.get('n', 1)))
    if f == 'directive':
        return _L("# %s: %s" % (directive_spelling(st), directive_text(st['dirs'])))
    if f == 'coroexpr':
        # an expression whose value is a coroutine object that nobody awaits: creating it
        # runs nothing (no hit), and the runner must not run it either
        return _L("S.aop('%s')" % p[0])
    if f == 'regappend':
        # uses an object made by the --global-exec snippet of the run (fresh for every doctest)
        return _L("sim_reg%d = len(SIMREG.__iadd__(['%d']))" % (i, i))
    if f == 'await':
        return _L("sim_aw%d = await S.aop('%s')" % (i, p[0]))
    if f == 'awaitexpr':
        return _L("await S.aop('%s')" % p[0])
    if f == 'awaitprint':
        return _L("print(await S.aop('%s'))" % p[0])
    if f == 'gather':
        args = ', '.join("S.aop('%s', %s)" % (q, d) for q, d in zip(p, st['delays']))
        return _L("sim_g%d = await asyncio.gather(%s)" % (i, args))
    if f == 'asyncwith':
        return _L("async with S.actx('%s', '%s') as sim_cx%d:" % (p[0], p[2], i), "    S.emit('%s')" % p[1])
    if f == 'asyncfor':
        return _L("async for sim_it%d in S.actx('%s', '%s'):" % (i, p[0], p[1]), "    print(sim_it%d)" % i)
    if f == 'asyncdef':
        return _L("async def sim_co%d(pid):" % i, "    return await S.aop(pid)")
    if f == 'awaitco':
        return _L("sim_r%d = await sim_co%d('%s')" % (i, st['ref'], p[0]))
    if f == 'rebindG':
        return _L("G = S.op('%s')" % p[0])
    if f == 'useG':
        # reads a name that also exists at module level of the module under test
        return _L("sim_ug%d = str(G)" % i)
    if f == 'shadow':
        # shadows a module-level function of the module under test
        return _L("simshadow = S.op('%s')" % p[0])
    if f == 'useshadow':
        return _L("sim_us%d = str(simshadow)[:6]" % i)
    if f == 'delconst':
        return _L("del SIMCONST")
    if f == 'hasconst':
        return _L("sim_hc%d = 'SIMCONST' in globals()" % i)
    if f == 'decoclass':
        return _L("@S.deco('%s')" % p[0], "class SimK%d:" % i, "    sim_attr = %d" % i)
    if f == 'decoasync':
        return _L("@S.deco('%s')" % p[0], "async def sim_ad%d(pid):" % i, "    return await S.aop(pid)")
    if f == 'decodef2':
        return _L("@S.deco('%s')" % p[0], "@S.deco('%s')" % p[1], "def sim_dd%d(pid):" % i, "    return S.op(pid)")
    if f == 'emitnoeol':
        # writes a token and leaves the line unfinished
        return _L("S.emitnoeol('%s')" % p[0])
    if f == 'bgtask':
        # a background task that is still pending when the statement group ends:
        # the event loop cancels it, its clean-up code runs (and is part of the program)
        return _L("_bg%d = asyncio.ensure_future(S.abg('%s', '%s'))" % (i, p[0], p[1]),
                  "sim_ba%d = await S.aop('%s')" % (i, p[2]))
    if f == 'emitop':
        # called code that prints *and* returns a value
        return _L("S.emitop('%s')" % p[0])
    if f == 'names':
        return _L("S.names(globals(), '%s')" % p[0])
    if f == 'modglobal':
        return _L("sim_mg%d = S.modglobal('%s', '%s')" % (i, st['modname'], p[0]))
    if f == 'usename':
        # reads a name another doctest defines: NameError unless it leaked
        return _L("sim_u%d = sim_v%d" % (i, st['ref']))
    if f == 'useclass':
        # reads a class another doctest of the module defines: NameError unless it leaked
        return _L("sim_uc%d = SimDocErr.__name__" % i)
    if f == 'trysibling':
        # a top-level module next to the package: importable only while the directory
        # xdoctest adds temporarily is (still) on sys.path
        return _L("try:", "    import simsibling", "    S.emit('%s')" % p[0], "except ImportError:", "    S.emit('%s')" % p[1])
    if f == 'annot':
        # an annotation is an expression: evaluating it when the function is defined is part of the program
        return _L("def sim_an%d(sim_x: S.op('%s') = None):" % (i, p[0]), "    return sim_x")
    if f == 'futureimport':
        # this doctest's own compile-time switch (belongs to this doctest only)
        return _L("from __future__ import annotations")
    if f == 'emitcr':
        # a progress-style line: carriage return before the line feed
        return _L("S.emitcr('%s')" % p[0])
    if f == 'strsemi':
        # semicolons that are not statement separators: inside a string and a comment
        # (a directive is only recognised at the start of a comment: where the statement carries
        # one, the comment of its own is left out)
        return _L("sim_ss%d = 'a; b'%s" % (i, '' if st.get('inline') else '  # c; d'))
    if f == 'keepglobal':
        # leaves a reference to the stream it finds in sys.stdout in a long-lived object of the code under test
        return _L("S.keepstream(sys.stdout, '%s')" % p[0])
    if f == 'writekept':
        # ... through which some later code writes (a logging handler does both)
        return _L("S.writekept('%s')" % p[0])
    if f == 'keepout':
        # the code under test remembers the stream it finds in sys.stdout ...
        return _L("_out%d = sys.stdout" % i)
    if f == 'writeout':
        # ... and writes through that reference later (a logging handler does this)
        return _L("_ = _out%d.write(str(S.op('%s')) + chr(10))" % (st['ref'], p[0]))
    if f == 'const':
        # a statement with no point in it: the same text wherever it appears
        return _L("sim_k = 1")
    if f == 'withswap':
        # redirects sys.stdout into a file for the length of a block and never puts it back
        return _L("with open(os.devnull, 'w') as _f%d:" % i, "    sys.stdout = _f%d" % i, "    sim_ws%d = S.op('%s')" % (i, p[0]))
    if f == 'defreprclass':
        # a class of the doctest whose repr needs a name the doctest defines
        return _L("class SimR%d:" % i, "    def __repr__(self):", "        return 'R' + str(sim_rname%d)" % i, "sim_rname%d = 7" % i)
    if f == 'reprexpr':
        return _L("SimR%d()" % st['ref'])
    if f == 'badcompile':
        return _L(st.get('text', 'return 5'))
    if f == 'strdirective':
        # directive-looking text inside a string literal must be inert
        return _L("sim_s%d = str(S.op('%s')) + ' # xdoctest: +SKIP'" % (i, p[0]))
    raise KeyError(f)


# nominal printed tokens (in order), as (pid, n) pairs
def form_out(st):
    f = st['form']
    p = st.get('pts', [])
    if f in ('print', 'emit', 'write', 'awaitprint', 'callhelper_emit', 'emitop', 'writeout'):
        return [tok(p[0]) + '\n']
    if f == 'say':
        return [st.get('text', 'ok') + '\n']
    if f == 'usestd':
        return ['True\n']
    if f == 'emitnoeol':
        return [tok(p[0])]
    if f == 'emitcr':
        # (a want quotes the line without the carriage return: whitespace normalisation,
        # on by default, makes the two equal; what is *recorded* keeps the \r)
        return [tok(p[0]) + '\n']
    if f == 'bgtask':
        return [tok(p[1]) + '\n']
    if f in ('for', 'try', 'semiemit'):
        return [tok(p[0]) + '\n', tok(p[1]) + '\n']
    if f == 'if':
        return [tok(p[1]) + '\n']
    if f == 'tqprint':
        return [tok(p[0]) + '\n' + 'tail%dline\n' % st['i']]
    if f == 'asyncwith':
        return [tok(p[1]) + '\n']
    if f == 'trysibling':
        return [tok(p[1]) + '\n']
    if f == 'asyncfor':
        return [tok(p[0]) + '\n', tok(p[1]) + '\n']
    return []


EXPR_FORMS = {'expr', 'zcall', 'usestd', 'sharedcall', 'print', 'emit', 'emitnoeol', 'emitcr', 'keepglobal', 'writekept', 'coroexpr', 'reprexpr', 'sayval', 'modsay', 'say', 'multiline', 'semiemit', 'tqprint', 'callhelper_expr', 'callhelper_emit',
              'callmod_expr', 'awaitexpr', 'awaitprint', 'names', 'emitop'}
VALUE_FORMS = {'sharedcall': 0, 'expr': 0, 'multiline': 0, 'callhelper_expr': 0, 'callmod_expr': 0, 'awaitexpr': 0, 'emitop': 0, 'reprexpr': 0}
NOCODE_FORMS = {'comment', 'directive', 'blankprompt'}
ASYNC_FORMS = {'await', 'awaitexpr', 'awaitprint', 'gather', 'asyncwith', 'asyncfor', 'awaitco', 'bgtask'}


def is_expr(st):
    return st['form'] in EXPR_FORMS


def value_repr(st):
    if st['form'] == 'reprexpr':
        return 'R7'
    if st['form'] == 'sharedcall':
        return '<%s>' % tok(st['spid'])
    if st['form'] in VALUE_FORMS:
        return '<%s>' % tok(st['pts'][0])
    return None


# ----------------------------------------------------------------------------
# rendering
# ----------------------------------------------------------------------------

def exc_last_line(exc):
    """text of the final 'Type: message' line for a nominal exception spec."""
    name = exc['exc']
    msg = exc.get('msg')
    if name == 'Group1':
        return 'ExceptionGroup: %s (1 sub-exception)' % (msg or 'grp')
    if name.startswith('mod:'):
        shown = name[4:]
    elif name.startswith('doc:'):
        shown = name[4:]
    elif name in ('SimError', 'SimBaseExc'):
        shown = 'peer.' + name
    else:
        shown = name
    if msg is None or msg == '':
        return shown
    if name == 'KeyError':
        return '%s: %r' % (shown, msg)
    return '%s: %s' % (shown, msg)


def inner_last_line(st):
    return "KeyError: 'inner %s'" % tok(st['pts'][0])


def ell_prefix(st):
    """the part of the statement's output line an 'ell' want spells out (the
    point id makes it unique to this statement)"""
    return 'Tk' + st['pts'][0]


def want_lines_for(st, window_nominal):
    """lines of the want of this step under the nominal plan, or None"""
    w = st.get('want')
    if not w:
        return None
    if w == 'acc':
        text = ''.join(window_nominal + form_out(st))
    elif w == 'last':
        text = ''.join(form_out(st))
    elif w == 'repr':
        text = value_repr(st) + '\n'
    elif w.startswith('tb'):
        exc = st['exc']
        last = exc_last_line(exc)
        if w == 'tb':
            lines = [TB_HEADER, '    ...', last]
        elif w == 'tbstack':
            lines = [TB_HEADER, '  File "<sim>", line 1, in <module>', '    whatever()', last]
        elif w == 'tbbare':
            lines = [TB_HEADER, last]
        elif w == 'tbell2':
            # two ellipses; the piece between them occurs in the message only once, inside the
            # text the trailing piece has to match: no way to lay the pieces out in order
            head, sep, tail = last.partition(': ')
            word = tail.split()[-1] if tail.split() else 'x'
            lines = [TB_HEADER, '    ...', head + sep + tail.split()[0] + '...' + word + '...' + word]
        elif w == 'tbmember':
            # names the single member of the group instead of the group that is raised
            lines = [TB_HEADER, '    ...', 'ValueError: member of ' + (st['exc'].get('msg') or 'grp')]
        elif w == 'tbinner':
            # describes the exception that was being handled (the context), not the one raised
            lines = [TB_HEADER, '    ...', inner_last_line(st)]
        elif w == 'tbdots':
            # the stack abbreviated by an *unindented* ellipsis line
            lines = [TB_HEADER, '...', last]
        elif w == 'tbdotssuffix':
            # ... followed by a final line that is only the tail of the real one:
            # the module path and the first three characters of the class name are missing
            head, sep, tail = last.partition(':')
            lines = [TB_HEADER, '...', head.rsplit('.', 1)[-1][3:] + sep + tail]
        elif w == 'tbdotsonly':
            # header and ellipsis but no 'Type: message' line: not a traceback block
            lines = [TB_HEADER, '...']
        elif w == 'tbell':
            # ellipsis inside the message: only the first 4 chars of the message are spelled out
            head = last.split(': ', 1)
            lines = [TB_HEADER, '    ...', head[0] + ': ' + head[1][:4] + '...']
        elif w == 'tbwrongmsg':
            lines = [TB_HEADER, '    ...', last + ('DIFFERENT' if ':' in last else ': DIFFERENT')]
        elif w == 'tbwrongtype':
            # another class *name* (the part after the last dot and before the colon)
            head, sep, tail = last.partition(':')
            mod, dot, short = head.rpartition('.')
            lines = [TB_HEADER, '    ...', mod + dot + 'Sim' + short + sep + tail]
        elif w == 'tbdetail':
            # only valid with IGNORE_EXCEPTION_DETAIL: class right, message different
            head = last.split(':', 1)[0]
            lines = [TB_HEADER, '    ...', head + ': some other detail']
        else:
            raise KeyError(w)
        text = '\n'.join(lines) + '\n'
        return text.rstrip('\n').split('\n')
    elif w == 'text':
        text = 'SomeWantText%d\n' % st['i']
    elif w == 'loopecho':
        text = '1\n2\n'
    elif w == 'okell':
        # the shared value 'okay' written with an ellipsis and without its quotes
        text = 'o...y\n'
    elif w == 'none':
        # the repr of the value of an expression statement that evaluates to None
        text = 'None\n'
    elif w == 'coro':
        # repr of a coroutine object up to its address
        text = '<coroutine object Peer.aop at ...>\n'
    elif w == 'ell':
        # the statement's own (single) output line with its tail replaced by an
        # ellipsis: satisfied exactly when ELLIPSIS is on
        text = ell_prefix(st) + '...\n'
    elif w == 'stale':
        # a want on a statement that writes nothing and has no value, made of
        # text that was true *earlier* in the same doctest: the repr of an earlier
        # expression's value, or a line an earlier statement printed
        sp = st['stale']
        text = ('<%s>\n' if sp['kind'] == 'repr' else '%s\n') % tok(sp['pid'])
    else:
        raise KeyError(w)
    if not text:
        return None
    lines = text.rstrip('\n').split('\n')
    wc = st.get('want_corrupt')
    if wc == 'replace':
        lines[-1] = 'Wc' + lines[-1]
    elif wc == 'append':
        lines.append('WcAppended%d' % st['i'])
    elif wc == 'prepend':
        lines.insert(0, 'WcPrepended%d' % st['i'])
    elif wc == 'droplast':
        if len(lines) < 2:
            lines[-1] = 'Wc' + lines[-1]
        else:
            lines.pop()
    elif wc == 'samelen':
        # an edit that keeps the size of the file: one character of the want becomes another
        lines[-1] = lines[-1][:-1] + ('X' if lines[-1][-1:] != 'X' else 'Y')
    elif wc == 'blankline':
        # replaced by the marker for an empty line: nothing the statement wrote
        lines = ['<BLANKLINE>']
    elif wc in ('stale_replace', 'stale_prepend'):
        # corruption by text that an earlier statement of the same doctest
        # really produced (and that an earlier want already consumed, or that is
        # the repr of an earlier value): still not what this statement produced
        sp = st['stale']
        old = ('<%s>' if sp['kind'] == 'repr' else '%s') % tok(sp['pid'])
        if wc == 'stale_replace':
            lines = [old]
        else:
            lines.insert(0, old)
    return lines


def render_doctest(dt, indent, out, lineno0, env=None, defaults=None):
    """Append the lines of one doctest (without tag) to ``out``.
    ``lineno0`` is the 1-based file line the first appended line will get.
    Returns step meta."""
    meta_steps = []
    window = []             # nominal outputs since previous want
    first = True
    pad = indent
    if dt.get('disabled'):
        out.append(pad + '>>> # ' + dt['disabled'])
    if dt.get('defaults') is not None:
        defaults = dt['defaults']
    runs = D.executed_flags(dt['steps'], env or {}, defaults)
    base_pad = pad
    for st, st_runs in zip(dt['steps'], runs):
        # a statement (with its want) may sit at a deeper column than the one before
        pad = base_pad + ' ' * st.get('indent', 0)
        sep = st.get('sep', 'none')
        if not first:
            if sep == 'blank':
                out.append('')
            elif sep == 'prose':
                out.append('')
                # (a prose line may look like a section header: inside an example block it is text)
                out.append(base_pad + (PROSE[st['i'] % len(PROSE)] if dt.get('header_prose') else PROSE[0]))
                out.append('')
        first = False
        lines = form_lines(st)
        inline = directive_text(st['inline']) if st.get('inline') else None
        first_line = lineno0 + len(out)
        n = len(lines)
        if inline and st.get('inline_at') == 'own' and st['form'] in ('multiline', 'multicall') and n >= 3:
            # the directive on a comment line of its own inside the brackets: still this statement's
            lines = lines[:1] + [('    # %s: %s' % (directive_spelling(st), inline), True)] + lines[1:]
            n = len(lines)
            inline = None
        for j, (text, prefixed) in enumerate(lines):
            if inline and ((st.get('inline_at', 'last') in ('last', 'own') and j == n - 1) or
                           (st.get('inline_at') == 'first' and j == 0)):
                text = text + '  # %s: ' % directive_spelling(st) + inline
            if not prefixed:
                # (string lines without a prompt: under the code, or flush with the prompt)
                out.append(pad + ('' if st.get('flush') else '    ') + text)
            elif j == 0 or not st.get('ps2'):
                out.append((pad + '>>> ' + text).rstrip(' '))
            else:
                out.append((pad + '... ' + text).rstrip(' '))
        last_line = lineno0 + len(out) - 1
        wl = want_lines_for(st, window)
        want_line = None
        if wl:
            want_line = lineno0 + len(out)
            wpad = pad + ' ' * st.get('want_indent', 0)
            for w in wl:
                out.append(wpad + w)
            if st_runs:
                window = []
        else:
            if st.get('want') in ('acc', 'last'):
                # a want with nothing to show (what it would quote does not run here): the chunk
                # still ends at this statement, as the generator assumed when it laid out the rest
                out.append('')
            if st['form'] not in NOCODE_FORMS and st_runs:
                window = window + form_out(st)
        meta_steps.append({'first': first_line, 'last': last_line, 'want_line': want_line,
                           'want_text': '\n'.join(wl) if wl else None, 'runs_nominally': st_runs})
    return meta_steps


def render_docstring(doc, base_indent, out, lineno0, modname, callname, meta, env=None, defaults=None):
    """doc = {'layout': 'google'|'freeform', 'tabs': bool, 'doctests': [...]}"""
    ind = base_indent
    start = len(out)
    out.append(ind + '"""')
    out.append(ind + 'Summary of %s.' % callname)
    if doc['layout'] == 'google':
        for num, dt in enumerate(doc['doctests']):
            out.append('')
            out.append(ind + dt.get('tag', 'Example') + ':')
            body_ind = ind + '    '
            dtid = '%s::%s:%d' % (modname, callname, num)
            ln = lineno0 + len(out)
            steps = render_doctest(dt, body_ind, out, lineno0, env, defaults)
            meta[dtid] = {'lineno': ln, 'steps': steps, 'modname': modname, 'callname': callname, 'num': num}
    else:
        assert len(doc['doctests']) <= 1
        for num, dt in enumerate(doc['doctests']):
            out.append('')
            dtid = '%s::%s:%d' % (modname, callname, num)
            ln = lineno0 + len(out)
            # (the usual reST layout: prose flush left, the example indented under it)
            steps = render_doctest(dt, ind + ' ' * doc.get('deep', 0), out, lineno0, env, defaults)
            meta[dtid] = {'lineno': ln, 'steps': steps, 'modname': modname, 'callname': callname, 'num': num}
    out.append(ind + '"""')
    if doc.get('tabs'):
        # docstring indented by tabs instead of spaces: one tab per 8 columns is
        # what str.expandtabs assumes, so 4-column levels become a tab only at
        # multiples of 8; we replace the *base* indentation (same on all lines)
        for j in range(start + 1, len(out)):
            line = out[j]
            if line.startswith(ind) and ind:
                rest = line[len(ind):]
                out[j] = '\t' * (len(ind) // 4) + rest
    return


MODULE_PRELUDE = '''import os
import sys
import asyncio
import _xdsim as S
S.importing(%(modname)r)
G = 'G0-%(short)s'
SIMCONST = 'C0-%(short)s'


class SimLocalError(Exception):
    pass


def simdeco(func):
    return func


def simshadow():
    return 'module level function'


def modhelper1(pid):
    return S.op(pid)


def modshared(x):
    # (called by statements whose text is the same in several doctests of this module)
    return S.op('qsh%(short)ss0a')


SIM_IMPORT_STDOUT = sys.stdout


def modsay(pid, out=sys.stdout):
    S.writeto(out, pid)


def modhelper2(pid):
    return modhelper1(pid)


def modhelper3(pid):
    return modhelper2(pid)
'''


def render_module(mod, env=None, defaults=None):
    """-> (text, meta)"""
    meta = {}
    out = []
    modname = mod['name']
    items = mod['items']
    # module docstring first (if any)
    rest = []
    for it in items:
        if it['kind'] == 'moddoc':
            render_docstring(it['doc'], '', out, 1, modname, '__doc__', meta, env, defaults)
        else:
            rest.append(it)
    for line in (MODULE_PRELUDE % {'modname': modname, 'short': modname.split('.')[-1]}).split('\n'):
        out.append(line)
    for it in rest:
        out.append('')
        if it['kind'] == 'func':
            for d in it.get('decos', []):
                out.append('@' + d)
            out.append('%sdef %s(a=None):' % ('async ' if it.get('async') else '', it['name']))
            if it.get('doc'):
                render_docstring(it['doc'], '    ', out, 1, modname, it['name'], meta, env, defaults)
            out.append('    return a')
        elif it['kind'] == 'zfunc':
            # no docstring, callable without arguments
            out.append('def %s():' % it['name'])
            out.append("    S.%s('%s')" % ('emit' if it.get('emits') else 'op', it['pid']))
            meta['%s::%s:0' % (modname, it['name'])] = {
                'lineno': 1, 'modname': modname, 'callname': it['name'], 'num': 0,
                'steps': [{'first': 1, 'last': 1, 'want_line': None, 'want_text': None, 'runs_nominally': True}]}
        elif it['kind'] == 'class':
            out.append('class %s:' % it['name'])
            if it.get('doc'):
                render_docstring(it['doc'], '    ', out, 1, modname, it['name'], meta, env, defaults)
            out.append('    attr = 1')
            for m in it.get('methods', []):
                out.append('')
                for d in m.get('decos', []):
                    out.append('    @' + d)
                args = 'self' if 'staticmethod' not in m.get('decos', []) else ''
                if 'classmethod' in m.get('decos', []):
                    args = 'cls'
                out.append('    def %s(%s):' % (m['name'], args))
                if m.get('doc'):
                    render_docstring(m['doc'], '        ', out, 1, modname, it['name'] + '.' + m['name'], meta, env, defaults)
                out.append('        return 1')
        else:
            raise KeyError(it['kind'])
    if mod.get('syntax_error'):
        out.append('def broken(:')
    text = '\n'.join(out) + '\n'
    return text, meta


def render_world(world, env=None):
    """-> files {relpath: text}, meta {dtid: {...}}"""
    files = {}
    meta = {}
    for rel in world.get('init_files', []):
        files[rel] = ''
    for mod in world['modules']:
        text, m = render_module(mod, env, world.get('defaults'))
        files[mod['relpath']] = text
        for dtid, v in m.items():
            v['relpath'] = mod['relpath']
            meta[dtid] = v
    for rel, text in world.get('extra_files', {}).items():
        files[rel] = text
    return files, meta


def iter_doctests(world):
    """yield (dtid, doctest spec, module spec)"""
    for mod in world['modules']:
        modname = mod['name']
        for it in mod['items']:
            docs = []
            if it['kind'] == 'moddoc':
                docs.append(('__doc__', it['doc']))
            elif it['kind'] == 'func':
                if it.get('doc'):
                    docs.append((it['name'], it['doc']))
            elif it['kind'] == 'class':
                if it.get('doc'):
                    docs.append((it['name'], it['doc']))
                for m in it.get('methods', []):
                    if m.get('doc'):
                        docs.append((it['name'] + '.' + m['name'], m['doc']))
            elif it['kind'] == 'zfunc':
                yield '%s::%s:0' % (modname, it['name']), zero_arg_doctest(it), mod
            for callname, doc in docs:
                for num, dt in enumerate(doc['doctests']):
                    yield '%s::%s:%d' % (modname, callname, num), dt, mod


def world_at(world, ops, opidx):
    """the world as it is on disk when operation ``opidx`` runs: each 'rewrite' operation
    before it has edited one want in place (same size, same modification time)"""
    rw = [op for op in ops[:opidx or 0] if op['op'] == 'rewrite']
    if not rw:
        return world
    import copy
    w = copy.deepcopy(world)
    for op in rw:
        for dtid, dt, mod in iter_doctests(w):
            if dtid == op['dt']:
                for st in dt['steps']:
                    if st['i'] == op['step_i']:
                        st['want_corrupt'] = 'samelen'
    return w


def zero_arg_doctest(it):
    return {'zero_arg': True, 'tag': 'Example',
            'steps': [{'i': 0, 'form': 'zcall', 'name': it['name'], 'pts': [it['pid']], 'ps2': False, 'sep': 'none'}]}


def point_owner_map(world):
    owner = {}
    for dtid, dt, mod in iter_doctests(world):
        for st in dt['steps']:
            for p in st.get('pts', []):
                owner[p] = dtid
    return owner


def nominal_plan(world):
    """pid -> fault dict for points that raise under the nominal plan
    (steps whose text expects an exception)"""
    nom = {}
    for dtid, dt, mod in iter_doctests(world):
        for st in dt['steps']:
            if st.get('exc') and st.get('nominal_raise', True) and st['form'] != 'chainexc':
                f = dict(st['exc'])
                f['kind'] = 'raise'
                f['nominal'] = True
                nom[st['pts'][st.get('raise_at', 0)]] = f
            if st['form'] == 'chainexc':
                nom[st['pts'][0]] = {'kind': 'raise', 'exc': 'KeyError', 'msg': 'inner ' + tok(st['pts'][0]), 'nominal': True}
                if st.get('exc'):
                    f = dict(st['exc'])
                    f['kind'] = 'raise'
                    f['nominal'] = True
                    nom[st['pts'][1]] = f
            if st['form'] == 'tryexc' and st.get('nominal_raise', True):
                nom[st['pts'][0]] = {'kind': 'raise', 'exc': 'KeyError', 'msg': 'handled', 'nominal': True}
    return nom


def dumps(obj):
    return json.dumps(obj, sort_keys=True, separators=(',', ':'))
