"""Glue between exec records (what xdoctest did) and the reference model
(what it had to do): builds one Expect per execution and offers comparators
that the per-property oracles combine."""
import model
import world as W
from peer import tok


def spec_index(world):
    return {dtid: (dt, mod) for dtid, dt, mod in W.iter_doctests(world)}


def import_behaviour(scn, modname):
    """-> None | ('fails', [names]) | ('raises', name) | ('silent',)"""
    parts = modname.split('.')
    for f in scn.get('plan', []):
        if 'import' not in f:
            continue
        if f['import'] != modname:
            continue
        kind = f['kind']
        if kind == 'syspath':
            if f['how'] in ('remove_tmp', 'dup_tmp'):
                return ('silent',)
            if not f.get('then_raise'):
                return None
            exc = f['then_raise']
        elif kind == 'raise':
            exc = f.get('exc', 'ImportError')
        else:
            return None
        if exc in ('KeyboardInterrupt', 'SystemExit', 'SimBaseExc'):
            return ('raises', exc)
        return ('fails', ['RuntimeError'])
    return None


def env_at(scn, opidx):
    """the simulated environment in force when operation ``opidx`` runs (the
    last 'setenv' operation before it, else the scenario's initial one)"""
    env = dict(scn.get('env', {}))
    for op in scn['ops'][:opidx if opidx is not None else 0]:
        if op['op'] == 'setenv':
            env = dict(env, environ=op.get('environ', {}), argv=op.get('argv', ['xdsim']))
    return env


def has_async_fault(scn, dtid, k):
    for f in scn.get('plan', []):
        if f.get('dt') == dtid and f.get('k') == k and ('trace' in f or 'trace_frac' in f or 'stream_write' in f or 'stream_flush' in f or f.get('kind') == 'nonascii'):
            return True
    return False


def build(rec):
    """attach e['E'] (Expect or None) to every exec record of a generated doctest"""
    scn = rec['scn']
    world = scn['world']
    idx = spec_index(world)
    files, meta = W.render_world(world, scn.get('env', {}))
    meta0 = meta
    versions = {0: (idx, files, meta)}
    for e in rec['execs']:
        e['E'] = None
        # (the files as they were on disk when this operation ran)
        nrw = sum(1 for op in scn['ops'][:e['op'] or 0] if op['op'] == 'rewrite')
        if nrw not in versions:
            w2 = W.world_at(world, scn['ops'], e['op'])
            f2, m2 = W.render_world(w2, scn.get('env', {}))
            versions[nrw] = (spec_index(w2), f2, m2)
        idx, files, meta = versions[nrw]
        if e['dtid'] not in idx:
            continue
        dt, mod = idx[e['dtid']]
        op = scn['ops'][e['op']] if e['op'] is not None else {}
        ctx = {'env': env_at(scn, e['op']), 'mode': e.get('mode')}
        defaults = dict(world.get('defaults') or {})
        cfg = op.get('config') or {}
        if cfg.get('default_runtime_state'):
            defaults.update(cfg['default_runtime_state'])
        if op.get('op') == 'cli':
            for a in op['argv']:
                if a.startswith('--options='):
                    for part in a[len('--options='):].split(','):
                        part = part.strip()
                        if part:
                            defaults[part.lstrip('+-').upper()] = not part.startswith('-')
        ctx['defaults'] = defaults
        ctx['in_loop'] = bool(op.get('in_loop'))
        ib = import_behaviour(scn, mod['name'])
        silent_all = False
        if ib is not None:
            if ib[0] == 'fails':
                ctx['import_fails'] = ib[1]
            elif ib[0] == 'silent':
                silent_all = True
        try:
            E = model.model_run(dt, meta[e['dtid']], e['dtid'], e['k'], ctx, files[mod['relpath']], mod['name'])
        except Exception as ex:
            import traceback
            raise RuntimeError('model failure for %s: %s' % (e['dtid'], traceback.format_exc()))
        if ib is not None and ib[0] == 'raises' and E.verdict != 'skipped':
            E.verdict = 'raises'
            E.raises = ib[1]
            E.hits = []
            E.step_out = []
            E.bindings = None
            E.silent.add('line')
        if silent_all:
            E.silent.update(['verdict', 'hits', 'stdout', 'bindings', 'line'])
        if has_async_fault(scn, e['dtid'], e['k']):
            E.silent.update(['verdict', 'hits', 'stdout', 'bindings', 'line'])
            E.notes.append('asynchronous fault planned: model silent')
        if e.get('swapped_stdout'):
            # what is lost depends on where the parts are cut: the model is silent
            # for the execution that replaced sys.stdout itself (not for later ones)
            E.silent.update(['stdout', 'verdict', 'hits', 'bindings', 'line'])
        e['E'] = E
    return meta0


def classify(e):
    """what xdoctest reported for this execution ->
    (verdict, exception class name or None, is got/want?)"""
    if e['how'] == 'returned':
        s = e['summary']
        return (s['verdict'], s.get('exc_type'), s.get('is_gotwant'))
    name = e['exc']
    if name == 'Skipped' and e.get('mode') == 'pytest':
        return ('skipped', None, None)
    if e.get('exc_is_exception') and (e.get('eff_on_error') == 'raise'):
        return ('failed', name, name == 'GotWantException')
    return ('raises', name, None)


def cmp_verdict(e, E):
    if E is None or 'verdict' in E.silent:
        return []
    v, name, gw = classify(e)
    out = []
    if E.verdict == 'raises':
        if v != 'raises' or name != E.raises:
            out.append('expected %s to propagate, got %s %s' % (E.raises, v, name))
        return out
    if v != E.verdict:
        out.append('expected %s%s, xdoctest says %s%s' % (
            E.verdict, ' with ' + '/'.join(sorted(E.exc_names)) if E.exc_names else '',
            v, ' with ' + str(name) if name else ''))
        return out
    if E.verdict == 'failed':
        if name not in E.exc_names:
            out.append('expected failure with %s, got %s' % ('/'.join(sorted(E.exc_names)), name))
        elif E.gotwant is True and not gw:
            out.append('expected a got/want error, got %s' % name)
        elif E.gotwant is False and gw:
            out.append('expected %s, got a got/want error' % '/'.join(sorted(E.exc_names)))
    return out


def cmp_hits(e, E):
    if E is None or 'hits' in E.silent:
        return []
    got = [tuple(h) for h in e['hits']]
    exp = [tuple(h) for h in E.hits]
    if got != exp:
        # first difference
        i = 0
        while i < len(got) and i < len(exp) and got[i] == exp[i]:
            i += 1
        return ['statement executions differ from the reference program at position %d: got %s, expected %s' % (
            i, got[i:i + 3], exp[i:i + 3])]
    return []


def cmp_stdout(e, E):
    """recorded stdout == what the reference program wrote (C01.R4)"""
    if E is None or 'stdout' in E.silent or e.get('logged_stdout') is None:
        return []
    got = ''.join(t for t in e['logged_stdout'] if t)
    positions = {0}
    for idx, text, alt in E.step_out:
        nxt = set()
        for pos in positions:
            for cand in (text, alt):
                if cand is not None and got.startswith(cand, pos):
                    nxt.add(pos + len(cand))
        positions = nxt
        if not positions:
            break
    if len(got) not in positions:
        return ['recorded stdout %r differs from what the code wrote %r' % (got[-200:], ''.join(t for i, t, a in E.step_out)[-200:])]
    return []


def cmp_bindings(e, E):
    if E is None or 'bindings' in E.silent or E.bindings is None:
        return []
    got = e.get('bindings')
    if got is None:
        got = e.get('bindings_left')
    if got is None:
        return []
    exp = E.bindings
    if E.verdict in ('failed', 'raises') or E.early_exit:
        # the reference stopped at the same statement; bindings still comparable
        pass
    g = dict(got)
    x = dict(exp)
    if g != x:
        diff = sorted(set(g.items()) ^ set(x.items()))[:4]
        return ['final bindings differ from the reference program: %s' % diff]
    return []


def cmp_line(e, E, meta):
    if E is None or 'line' in E.silent or 'verdict' in E.silent or E.verdict != 'failed' or E.lines is None:
        return []
    if e['how'] != 'returned' or e['summary']['verdict'] != 'failed':
        return []
    ln = e['summary'].get('failed_lineno')
    lo, hi = E.lines
    if not isinstance(ln, int) or not (lo <= ln <= hi):
        return ['reported failing line %s, the statement/want is at file line %s..%s' % (ln, lo, hi)]
    return []
