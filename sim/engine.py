"""Engine: fork-per-scenario execution, worker pool, seeds, digests.

No threads, no multiprocessing: plain os.fork + pipes + select, so a hang is
killed by a watchdog and a crash of the interpreter is a result.
Every scenario runs in its own forked child of a pre-warmed worker and
therefore starts from an identical process image.
"""
import hashlib
import json
import os
import random
import select
import shutil
import signal
import sys
import time
import traceback

RUN_TIMEOUT = float(os.environ.get('VERIF_RUN_TIMEOUT', '60'))


def rng_for(seed, profile, index, salt=''):
    h = hashlib.sha256(('%s|%s|%s|%s' % (seed, profile, index, salt)).encode()).hexdigest()
    return random.Random(int(h[:16], 16))


def scratch_base():
    base = '/dev/shm' if os.path.isdir('/dev/shm') and os.access('/dev/shm', os.W_OK) else \
        os.environ.get('TMPDIR', '/tmp')
    return os.path.join(base, 'xdsim-%07d' % os.getpid())


# ----------------------------------------------------------------------------
# run a function in a forked child, get a JSON result back
# ----------------------------------------------------------------------------

def fork_call(fn, args, timeout=RUN_TIMEOUT):
    """-> ('ok', value) | ('timeout', None) | ('died', status) | ('error', text)"""
    r, w = os.pipe()
    pid = os.fork()
    if pid == 0:
        # child
        code = 0
        try:
            os.close(r)
            try:
                val = fn(*args)
                payload = json.dumps(['ok', val])
            except BaseException:
                sys.__dict__.pop('tracebacklimit', None)    # (a scenario may have limited it)
                payload = json.dumps(['error', traceback.format_exc()[-6000:]])
            data = payload.encode()
            off = 0
            while off < len(data):
                off += os.write(w, data[off:off + 65536])
        except BaseException:
            code = 13
        finally:
            os._exit(code)
    os.close(w)
    chunks = []
    deadline = time.monotonic() + timeout
    status = None
    try:
        while True:
            left = deadline - time.monotonic()
            if left <= 0:
                try:
                    os.kill(pid, signal.SIGKILL)
                except ProcessLookupError:
                    pass
                os.waitpid(pid, 0)
                return ('timeout', None)
            rl, _, _ = select.select([r], [], [], min(left, 1.0))
            if rl:
                b = os.read(r, 1 << 16)
                if not b:
                    break
                chunks.append(b)
        _, status = os.waitpid(pid, 0)
    finally:
        os.close(r)
    data = b''.join(chunks)
    if not data:
        return ('died', status)
    try:
        tag, val = json.loads(data.decode())
    except Exception:
        return ('died', status)
    return (tag, val)


# ----------------------------------------------------------------------------
# worker pool
# ----------------------------------------------------------------------------

class Pool:
    """J workers, each a forked copy of the (pre-warmed) parent.  A worker
    reads one JSON task per line, runs ``evaluate(task, slot_root)`` in a forked
    child and writes one JSON result per line."""

    def __init__(self, evaluate, jobs):
        self.evaluate = evaluate
        self.jobs = jobs
        self.base = scratch_base()
        os.makedirs(self.base, exist_ok=True)
        self.workers = []
        for slot in range(jobs):
            t_r, t_w = os.pipe()     # tasks parent -> worker
            r_r, r_w = os.pipe()     # results worker -> parent
            pid = os.fork()
            if pid == 0:
                try:
                    os.close(t_w)
                    os.close(r_r)
                    for w in self.workers:
                        os.close(w['tw'])
                        os.close(w['rr'])
                    self._worker_loop(slot, t_r, r_w)
                finally:
                    os._exit(0)
            os.close(t_r)
            os.close(r_w)
            self.workers.append({'pid': pid, 'tw': t_w, 'rr': r_r, 'busy': None, 'buf': b'', 'slot': slot})

    def _worker_loop(self, slot, t_r, r_w):
        signal.signal(signal.SIGINT, signal.SIG_IGN)
        root = os.path.join(self.base, 'w%02d' % slot)
        fin = os.fdopen(t_r, 'r')
        for line in fin:
            line = line.strip()
            if not line:
                continue
            task = json.loads(line)
            shutil.rmtree(root, ignore_errors=True)
            os.makedirs(root, exist_ok=True)
            t0 = time.monotonic()
            tag, val = fork_call(self.evaluate, (task, root), timeout=task.get('timeout', RUN_TIMEOUT))
            out = {'task': task, 'tag': tag, 'val': val, 'slot': slot, 'wall': time.monotonic() - t0}
            data = (json.dumps(out) + '\n').encode()
            off = 0
            while off < len(data):
                off += os.write(r_w, data[off:off + 65536])
        shutil.rmtree(root, ignore_errors=True)

    def map_unordered(self, tasks, wall_cap=None):
        """yield results as they complete. ``tasks`` is an iterable."""
        it = iter(tasks)
        pending = 0
        exhausted = False
        t_end = None if wall_cap is None else time.monotonic() + wall_cap
        free = list(self.workers)
        while True:
            while free and not exhausted:
                if t_end is not None and time.monotonic() > t_end:
                    exhausted = True
                    break
                try:
                    task = next(it)
                except StopIteration:
                    exhausted = True
                    break
                w = free.pop()
                os.write(w['tw'], (json.dumps(task) + '\n').encode())
                w['busy'] = task
                pending += 1
            if pending == 0:
                break
            rl, _, _ = select.select([w['rr'] for w in self.workers if w['busy'] is not None], [], [], 5.0)
            for w in self.workers:
                if w['rr'] in rl:
                    b = os.read(w['rr'], 1 << 16)
                    if not b:
                        # worker died
                        yield {'task': w['busy'], 'tag': 'worker_died', 'val': None, 'slot': w['slot'], 'wall': 0}
                        w['busy'] = None
                        pending -= 1
                        continue
                    w['buf'] += b
                    while b'\n' in w['buf']:
                        line, w['buf'] = w['buf'].split(b'\n', 1)
                        res = json.loads(line.decode())
                        w['busy'] = None
                        pending -= 1
                        free.append(w)
                        yield res

    def close(self):
        for w in self.workers:
            try:
                os.close(w['tw'])
            except OSError:
                pass
        for w in self.workers:
            try:
                os.waitpid(w['pid'], 0)
            except ChildProcessError:
                pass
            try:
                os.close(w['rr'])
            except OSError:
                pass
        shutil.rmtree(self.base, ignore_errors=True)


def single_root():
    """scratch root for one-off forked runs from the main process"""
    base = scratch_base()
    root = os.path.join(base, 'x00')
    shutil.rmtree(root, ignore_errors=True)
    os.makedirs(root, exist_ok=True)
    return root


def cleanup_single():
    shutil.rmtree(scratch_base(), ignore_errors=True)
