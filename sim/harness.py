"""Executor: plays one scenario (world + environment + history of operations +
fault plan) against the real xdoctest inside the current (forked) process and
returns everything the oracles need.

All of xdoctest runs for real.  What is simulated is the world around it; see
seams.py and peer.py.  Observation wrappers (DocTest.run,
utils.import_module_from_path) call straight through.
"""
import asyncio
import copy
import gc
import hashlib
import io
import json
import os
import sys
import traceback
import warnings

import seams
import peer as peermod
import world as worldmod
from seams import LOG, SimLoop, SimStream
from peer import PEER

_installed = {}


def repo_src():
    repo = os.environ.get('VERIF_REPO', '/repo')
    return os.path.join(repo, 'src')


def import_xdoctest():
    src = repo_src()
    if sys.path[0] != src:
        sys.path.insert(0, src)
    import xdoctest
    assert os.path.realpath(xdoctest.__file__).startswith(os.path.realpath(src)), xdoctest.__file__
    import xdoctest.runner
    import xdoctest.__main__
    import xdoctest.core
    import xdoctest.doctest_example
    import xdoctest.utils.util_import
    import xdoctest.utils.util_stream
    import xdoctest.exceptions
    import xdoctest.checker
    return xdoctest


# ----------------------------------------------------------------------------
# trace injector: asynchronous faults at the k-th in-scope line event
# ----------------------------------------------------------------------------

PEER_SCOPE = {'op', 'emit', 'emitop', 'emitnoeol', 'emitcr', 'keepstream', 'writekept', 'abg', 'deco', '_emit_text', 'sayval', 'writeto', 'say', 'aop', '_write', 'point', 'names', 'modglobal',
              '__aenter__', '__aexit__', '__anext__', '_raise_via'}


class Injector:
    """Counts 'line' events in frames that run on behalf of a doctest
    statement and raises at the chosen ordinal.  In scope: the doctest's own
    code, generated modules (under the scratch root), the peer, xdoctest/*.
    Out of scope: stdlib, the harness."""

    def __init__(self, target=None, excname='KeyboardInterrupt', root=None, xd_dir=None):
        self.n = 0
        self.target = target
        self.excname = excname
        self.active = 0
        self.root = root
        self.xd_dir = xd_dir
        self.fired_at = None
        self.fired_in = None
        self.sites = None
        self._scope_cache = {}

    def in_scope(self, fn):
        r = self._scope_cache.get(fn)
        if r is None:
            r = (fn.startswith('<doctest:') or
                 (self.root is not None and fn.startswith(self.root)) or
                 fn == peermod.__file__ or
                 (self.xd_dir is not None and fn.startswith(self.xd_dir)))
            self._scope_cache[fn] = r
        return r

    def glob(self, frame, event, arg):
        code = frame.f_code
        fn = code.co_filename
        if fn.startswith('<doctest:') and code.co_name == '<module>':
            self.active += 1
            return self.local_top
        if self.active > 0 and self.in_scope(fn):
            if fn == peermod.__file__ and code.co_name not in PEER_SCOPE:
                return None      # the peer's own bookkeeping is harness, not code under test
            return self.local_in
        return None

    def site_of(self, frame):
        fn = frame.f_code.co_filename
        if fn.startswith('<doctest:'):
            return 'd'
        if fn == peermod.__file__:
            return 'p'
        if self.xd_dir and fn.startswith(self.xd_dir):
            return 't' if frame.f_code.co_name == 'write' else 'x'
        return 'm'

    def tick(self, frame):
        self.n += 1
        if self.sites is not None:
            self.sites.append(self.site_of(frame))
        if self.target is not None and self.n == self.target and self.fired_at is None:
            self.fired_at = self.n
            fn = frame.f_code.co_filename
            where = ('doctest' if fn.startswith('<doctest:') else
                     'peer' if fn == peermod.__file__ else
                     'xdoctest' if (self.xd_dir and fn.startswith(self.xd_dir)) else 'module')
            self.fired_in = '%s:%s' % (where, frame.f_code.co_name)
            LOG.add('fault', 'trace', self.excname, self.n, self.fired_in)
            PEER.fired.append(('trace:' + self.excname, None, None, self.fired_in))
            cls = peermod.BUILTIN_EXC[self.excname]
            if cls is SystemExit:
                raise SystemExit(7)
            raise cls('sim: injected at event %d' % self.n)

    def local_top(self, frame, event, arg):
        if event == 'return':
            self.active -= 1
        elif event == 'line':
            self.tick(frame)
        return self.local_top

    def local_in(self, frame, event, arg):
        if event == 'line':
            self.tick(frame)
        return self.local_in


# ----------------------------------------------------------------------------
# snapshots of process-global state
# ----------------------------------------------------------------------------

class Snap:
    __slots__ = ('stdout', 'stderr', 'path', 'filters', 'running', 'loops_running', 'showwarning',
                 'loops_open', 'n_loops')

    def __init__(self):
        self.stdout = sys.stdout
        self.stderr = sys.stderr
        self.path = list(sys.path)
        self.filters = list(warnings.filters)
        try:
            self.running = asyncio._get_running_loop()
        except Exception:
            self.running = None
        self.loops_running = [l.sim_id for l in SimLoop.instances if l.is_running()]
        self.loops_open = [l.sim_id for l in SimLoop.instances if not l.is_closed()]
        self.n_loops = len(SimLoop.instances)
        self.showwarning = warnings.showwarning

    def loggable(self):
        return [type(self.stdout).__name__, type(self.stderr).__name__,
                [LOG.norm(p) for p in self.path], len(self.filters),
                self.running is not None, self.loops_running]


def filters_repr(filters):
    out = []
    for f in filters:
        action, msg, cat, mod, lineno = f
        out.append((action, getattr(msg, 'pattern', msg), cat.__name__, getattr(mod, 'pattern', mod), lineno))
    return out


def compare_snaps(a, b, allow_path_delta=None):
    """-> list of (rule suffix, detail).  Compared exactly as C12 words it."""
    bad = []
    if allow_path_delta and len(allow_path_delta) > 4 and allow_path_delta[4]:
        pass        # the imported module's own body replaced sys.stdout (bare import): its doing
    elif b.stdout is not a.stdout:
        bad.append(('R1', 'sys.stdout is %s, was %s' % (type(b.stdout).__name__, type(a.stdout).__name__)))
    if b.stderr is not a.stderr:
        bad.append(('R1', 'sys.stderr is %s, was %s' % (type(b.stderr).__name__, type(a.stderr).__name__)))
    if not allow_path_delta or not (allow_path_delta[0] or allow_path_delta[1] or (len(allow_path_delta) > 3 and allow_path_delta[3])):
        # nobody but xdoctest touched sys.path in between: "as it was found" includes the order
        if sorted(a.path) == sorted(b.path) and list(a.path) != list(b.path):
            moved = [LOG.norm(x) for x, y in zip(a.path, b.path) if x != y]
            bad.append(('R2', 'sys.path has the same entries in another order (first displaced: %s)' % moved[:2]))
    pa = sorted(a.path)
    pb = sorted(b.path)
    if allow_path_delta:
        added, removed = allow_path_delta[0], allow_path_delta[1]
        for x in added:
            pa.append(x)
        for x in removed:
            if x in pa:
                pa.remove(x)
        pa.sort()
    if pa != pb:
        extra = [LOG.norm(x) for x in pb if x not in pa or pb.count(x) > pa.count(x)]
        missing = [LOG.norm(x) for x in pa if x not in pb or pa.count(x) > pb.count(x)]
        bad.append(('R2', 'sys.path entries changed: extra=%s missing=%s' % (sorted(set(extra)), sorted(set(missing)))))
    if allow_path_delta and len(allow_path_delta) > 2 and allow_path_delta[2]:
        pass        # the imported module's own body installed a filter: its doing, not the importer's
    elif filters_repr(a.filters) != filters_repr(b.filters):
        bad.append(('R3', 'warnings.filters changed: %d -> %d entries' % (len(a.filters), len(b.filters))))
    if b.running is not a.running:
        bad.append(('R4', 'running event loop changed: %r -> %r' % (a.running is not None, b.running is not None)))
    newly_running = [i for i in b.loops_running if i not in a.loops_running]
    if newly_running:
        bad.append(('R4', 'event loop(s) left running: %s' % newly_running))
    return bad


# ----------------------------------------------------------------------------
# per-scenario state
# ----------------------------------------------------------------------------

class RecNS(dict):
    """namespace that remembers the sim_* bindings when xdoctest clears it"""
    cleared = None

    def clear(self):
        self.cleared = snapshot_bindings(self)
        super().clear()


def watched_name(k):
    """names whose final binding is compared with the reference program: what
    the doctests bind (sim_*) and the module-level names they rebind, shadow or
    delete (G, SIMCONST, simshadow, simdeco)"""
    return isinstance(k, str) and (k.startswith('sim') or k in ('G', 'SIMCONST'))


def snapshot_bindings(ns):
    out = {}
    for k, v in ns.items():
        if watched_name(k):
            try:
                if callable(v) and hasattr(v, '__name__'):
                    out[k] = '<callable>'
                elif type(v).__name__ == 'module':
                    out[k] = '<module %s>' % getattr(v, '__name__', '?')
                elif isinstance(v, list):
                    out[k] = '[' + ','.join(str(x) for x in v) + ']'
                else:
                    out[k] = str(v)
            except Exception as ex:
                out[k] = '<unprintable %s>' % type(ex).__name__
    return out


class State:
    def __init__(self):
        self.reset()

    def reset(self):
        self.scn = None
        self.root = None
        self.pkgroot = None
        self.meta = {}
        self.execs = []          # exec records (dict) in order
        self.imports = []        # import_module_from_path records
        self.exec_count = {}
        self.cur_op = None
        self.trace_plan = {}     # (dtid, k) -> (ordinal or None, excname)
        self.stream_plan = {}    # (dtid, k) -> {ordinal: excname}
        self.count_only = False
        self.trace_counts = {}   # (dtid, k) -> N events (count pass)
        self.term = None
        self.termerr = None
        self.vclock = None
        self.collections = {}
        self.propagated = {}
        self.out_of_scope = {}
        self.xd = None
        self.pre_run_hooks = []


ST = State()


def dtid_of(dt):
    return '%s::%s:%s' % (dt.modname, dt.callname, dt.num)


def _run_wrapper(orig):
    def run(self, verbose=None, on_error=None):
        if ST.scn is None:
            return orig(self, verbose=verbose, on_error=on_error)
        dtid = dtid_of(self)
        k = ST.exec_count.get(dtid, 0)
        ST.exec_count[dtid] = k + 1
        if type(self.global_namespace) is dict:
            ns = RecNS(self.global_namespace)
            self.global_namespace = ns
        ns = self.global_namespace
        if isinstance(ns, RecNS):
            ns.cleared = None
        rec = {
            'dtid': dtid, 'k': k, 'op': ST.cur_op, 'verbose': verbose, 'on_error': on_error,
            'obj': self, 'mode': self.mode, 'how': None, 'exc': None, 'summary': None,
            'hits': None, 'fired': None, 'trace': None,
            'eff_verbose': self.config.getvalue('verbose', verbose),
            'eff_on_error': self.config.getvalue('on_error', on_error),
        }
        ST.execs.append(rec)
        PEER.ctx.append((dtid, k))
        PEER.run_stdout.append(sys.stdout)
        PEER._stdout_was_swapped = False
        hits0 = len(PEER.hits)
        fired0 = len(PEER.fired)
        writes0 = len(PEER.writes)
        names0 = len(PEER.names_seen)
        mg0 = len(PEER.modglobals)
        viol0 = len(PEER.violations)
        il0 = len(PEER.import_log)
        snap0 = Snap()
        rec['snap0'] = snap0
        LOG.add('run_begin', dtid, k, rec['eff_verbose'], rec['eff_on_error'], snap0.loggable())
        inj = None
        tp = ST.trace_plan.get((dtid, k))
        if tp is not None or ST.count_only:
            target, excname = tp if tp is not None else (None, 'KeyboardInterrupt')
            inj = Injector(target, excname, root=ST.root, xd_dir=os.path.dirname(ST.xd.__file__))
            if ST.count_only:
                inj.sites = []
        sp = ST.stream_plan.get((dtid, k))
        sf0 = len(snap0.stdout.fired) if isinstance(snap0.stdout, SimStream) else 0
        if sp and isinstance(snap0.stdout, SimStream):
            snap0.stdout.arm(sp)
        try:
            if inj is not None:
                sys.settrace(inj.glob)
            try:
                summary = orig(self, verbose=verbose, on_error=on_error)
            finally:
                if inj is not None:
                    sys.settrace(None)
            rec['how'] = 'returned'
            rec['summary'] = summarize(self, summary)
            rec['n_warned'] = len(getattr(self, 'warn_list', None) or [])     # warnings the run recorded for this doctest
            if ST.scn.get('render') and summary['failed']:
                rec['render'] = render_failure(self)
            return summary
        except BaseException as ex:
            rec['how'] = 'raised'
            rec['exc'] = type(ex).__name__
            rec['exc_is_exception'] = isinstance(ex, Exception)
            rec['exc_obj'] = ex
            raise
        finally:
            if isinstance(snap0.stdout, SimStream):
                # terminal faults that fired during *this* execution
                rec['stream_fired'] = [('stream:' + e_, None, None, k_) for k_, e_ in snap0.stdout.fired[sf0:]]
                snap0.stdout.disarm()
            PEER.ctx.pop()
            PEER.run_stdout.pop()
            snap1 = Snap()
            rec['snap1'] = snap1
            rec['hits'] = PEER.hits[hits0:]
            rec['fired'] = PEER.fired[fired0:]
            rec['writes'] = [list(w) for w in PEER.writes[writes0:]]
            rec['names'] = PEER.names_seen[names0:]
            rec['modglobals'] = PEER.modglobals[mg0:]
            rec['peer_violations'] = PEER.violations[viol0:]
            rec['swapped_stdout'] = PEER._stdout_was_swapped
            rec['import_log'] = PEER.import_log[il0:]
            if inj is not None:
                rec['trace'] = {'n': inj.n, 'fired_at': inj.fired_at, 'fired_in': inj.fired_in}
                if ST.count_only:
                    ST.trace_counts[(dtid, k)] = ''.join(inj.sites)
            try:
                rec['logged_stdout'] = [self.logged_stdout[i] for i in sorted(self.logged_stdout)]
            except Exception:
                rec['logged_stdout'] = None
            if isinstance(ns, RecNS):
                rec['bindings'] = ns.cleared if ns.cleared is not None else None
                rec['bindings_left'] = snapshot_bindings(ns) if ns.cleared is None else None
            LOG.add('run_end', dtid, k, rec['how'], rec['exc'],
                    rec['summary'] and rec['summary']['verdict'], snap1.loggable(),
                    [LOG.norm(t) for t in (rec['logged_stdout'] or []) if t is not None])
    run._sim_wrapped = True
    return run


def render_failure(dt):
    out = {}
    for with_tb in (True, False):
        try:
            lines = dt.repr_failure(with_tb=with_tb)
            out[str(with_tb)] = LOG.norm('\n'.join(str(l) for l in lines))
        except Exception as ex:
            tb = traceback.extract_tb(ex.__traceback__)
            where = tb[-1].name if tb else '?'
            out[str(with_tb)] = 'RAISED:%s:%s in %s' % (type(ex).__name__, LOG.norm(str(ex))[:120], where)
    return out


def summarize(dt, summary):
    from xdoctest import checker
    verdict = 'passed' if summary['passed'] else 'failed' if summary['failed'] else 'skipped' if summary['skipped'] else '?'
    out = {'verdict': verdict, 'flags': [bool(summary['passed']), bool(summary['failed']), bool(summary['skipped'])]}
    ei = summary.get('exc_info')
    if ei is not None:
        out['exc_type'] = ei[0].__name__
        out['exc_mro'] = [c.__name__ for c in ei[0].__mro__]
        out['is_gotwant'] = isinstance(ei[1], checker.GotWantException)
        out['exc_msg'] = LOG.norm(str(ei[1]))[:300]
        try:
            out['failed_lineno'] = dt.failed_lineno()
        except Exception as ex:
            out['failed_lineno'] = 'RAISED:' + type(ex).__name__
        fp = dt.failed_part
        out['failed_part_import'] = (fp == '<IMPORT>')
        if fp is not None and fp != '<IMPORT>':
            out['failed_want'] = fp.want
            out['failed_part_line'] = dt.lineno + fp.line_offset
    return out


def _import_wrapper(orig):
    def import_module_from_path(modpath, index=-1):
        if ST.scn is None:
            return orig(modpath, index=index)
        snap0 = Snap()
        il0 = len(PEER.import_log)
        rec = {'modpath': LOG.norm(modpath), 'op': ST.cur_op, 'snap0': snap0, 'how': None, 'exc': None, 'index': index}
        ST.imports.append(rec)
        # tell the peer which temporary entry xdoctest is about to add
        try:
            from xdoctest.utils import util_import
            dpath, _ = util_import.split_modpath(modpath)
            modname = util_import.modpath_to_modname(modpath)
            parts = modname.split('.')
            for i in range(1, len(parts) + 1):
                b = PEER.import_plan.get('.'.join(parts[:i]))
                if b is not None:
                    b['_tmp'] = dpath
                    b['_index'] = index
        except Exception:
            pass
        LOG.add('import_begin', rec['modpath'])
        try:
            mod = orig(modpath, index=index)
            rec['how'] = 'returned'
            rec['modname'] = getattr(mod, '__name__', None)
            return mod
        except BaseException as ex:
            rec['how'] = 'raised'
            rec['exc'] = type(ex).__name__
            raise
        finally:
            rec['snap1'] = Snap()
            rec['import_log'] = PEER.import_log[il0:]
            LOG.add('import_end', rec['modpath'], rec['how'], rec['exc'])
    import_module_from_path._sim_wrapped = True
    return import_module_from_path


def install_wrappers():
    xd = import_xdoctest()
    from xdoctest import doctest_example, utils
    from xdoctest.utils import util_import, util_stream
    if not getattr(doctest_example.DocTest.run, '_sim_wrapped', False):
        doctest_example.DocTest.run = _run_wrapper(doctest_example.DocTest.run)
    if not getattr(util_import.import_module_from_path, '_sim_wrapped', False):
        w = _import_wrapper(util_import.import_module_from_path)
        util_import.import_module_from_path = w
        utils.import_module_from_path = w
    peermod.install()
    seams.install_loop_policy()
    # a write reaches the terminal 'during a part' when the doctest's output is being
    # captured, i.e. sys.stdout is not the stream the running run() found
    seams.set_in_part_probe(lambda: bool(PEER.run_stdout) and sys.stdout is not PEER.run_stdout[-1])
    ST.xd = xd
    return xd


# ----------------------------------------------------------------------------
# running a scenario
# ----------------------------------------------------------------------------

def write_world(files, pkgroot):
    for rel, text in sorted(files.items()):
        path = os.path.join(pkgroot, rel)
        os.makedirs(os.path.dirname(path), exist_ok=True)
        with open(path, 'w') as f:
            f.write(text)


def load_plan(scn):
    PEER.plan = {}
    ST.trace_plan = {}
    ST.stream_plan = {}
    PEER.import_plan = {}
    for f in scn.get('plan', []):
        if 'import' in f:
            PEER.import_plan[f['import']] = dict(f)
        elif 'trace' in f:
            ST.trace_plan[(f['dt'], f['k'])] = (f['trace'], f.get('exc', 'KeyboardInterrupt'))
        elif 'trace_frac' in f:
            # unresolved: only counted in this pass
            pass
        elif 'stream_write' in f:
            ST.stream_plan.setdefault((f['dt'], f['k']), {})[f['stream_write']] = f.get('exc', 'BlockingIOError')
        elif 'stream_flush' in f:
            ST.stream_plan.setdefault((f['dt'], f['k']), {})['flush'] = 'OSError'
        elif 'clock_jump' in f:
            pass
        else:
            PEER.plan[(f['dt'], f['k'], f['pid'], f.get('n', 0))] = dict(f)


class NominalPlan(dict):
    """plan lookups fall back to the nominal behaviour of the point"""

    def __init__(self, nominal):
        super().__init__()
        self.nominal = nominal

    def get(self, key, default=None):
        f = dict.get(self, key)
        if f is not None:
            if f['kind'] == 'noraise':
                if PEER.mode == 'real':
                    PEER.fired.append(('noraise', key[0], key[1], key[2]))
                return None
            return f
        if key[3] == 0:
            return self.nominal.get(key[2], default)
        return default


def execute(scn, root, count_only=False):
    """Run the scenario in this process. -> record dict (with live objects)."""
    xd = install_wrappers()
    from xdoctest import runner as xrunner
    # cyclic garbage (tracebacks hold frames hold CaptureStdout objects with a
    # __del__) must be collected at points that do not depend on how much the
    # worker allocated before the fork: collect now, then only between operations
    gc.collect()
    gc.disable()
    ST.reset()
    ST.xd = xd
    PEER.reset()
    from xdoctest.utils import util_stream
    SimLoop.instances.clear()
    LOG.events = []
    LOG.root = root
    ST.scn = scn
    ST.root = root
    ST.count_only = count_only
    pkgroot = os.path.join(root, 'w')
    cwd = os.path.join(root, 'cwd')
    os.makedirs(pkgroot, exist_ok=True)
    os.makedirs(cwd, exist_ok=True)
    os.chdir(cwd)
    ST.pkgroot = pkgroot
    sys.dont_write_bytecode = True
    world = scn['world']
    files, meta = worldmod.render_world(world, scn.get('env', {}))
    ST.meta = meta
    write_world(files, pkgroot)
    env = scn.get('env', {})
    seams.set_environment(env.get('environ', {}), env.get('argv', ['xdsim']))
    if env.get('warnings_error'):
        warnings.simplefilter('error')                       # the host runs with -W error
    if env.get('bad_finder'):
        # an import hook of the host whose cache invalidation is broken (nothing calls it on the unchanged tree)
        class _SimFinder:
            def find_spec(self, name, path=None, target=None):
                return None

            def invalidate_caches(self):
                raise RuntimeError('sim: finder cannot invalidate its caches')
        sys.meta_path.append(_SimFinder())
    if env.get('tracebacklimit') is not None:
        sys.tracebacklimit = int(env['tracebacklimit'])     # a process-wide setting of the host program
    from xdoctest.utils import util_str as _ustr
    from xdoctest import global_state as _gstate
    _ustr.NO_COLOR = bool(env.get('no_color'))              # as if NO_COLOR had been set when xdoctest was imported
    _gstate.DEBUG_DOCTEST = bool(env.get('debug_doctest'))  # ... or XDOCTEST_DEBUG_DOCTEST
    if env.get('no_pygments'):
        # the optional colouring dependency is not installed in this environment
        for name in [n for n in sys.modules if n == 'pygments' or n.startswith('pygments.')]:
            del sys.modules[name]
        sys.modules['pygments'] = None
    if env.get('pkgroot_on_path') is not None:
        # the user already has the directory of the package on sys.path (PYTHONPATH, an
        # editable install): xdoctest's temporary entry is then a duplicate
        sys.path.insert(min(int(env['pkgroot_on_path']), len(sys.path)), pkgroot)
    os.walk = seams.make_walk(env.get('listing_seed', 0))
    jumps = {f['clock_jump']: f['delta'] for f in scn.get('plan', []) if 'clock_jump' in f}
    ST.vclock = seams.VClock(jumps)
    xrunner.time = ST.vclock
    load_plan(scn)
    nominal = worldmod.nominal_plan(world)
    np_ = NominalPlan(nominal)
    np_.update(PEER.plan)
    PEER.plan = np_
    owner = worldmod.point_owner_map(world)
    PEER.doc_owner = owner.get
    # module-level state xdoctest caches between calls
    from xdoctest import directive
    getattr(directive, '_MODNAME_EXISTS_CACHE', {}).clear()
    ST.term = SimStream('stdout')
    ST.termerr = SimStream('stderr')
    ST.term.ascii_only = bool(env.get('ascii_terminal'))
    real_out, real_err = sys.stdout, sys.stderr
    sys.stdout = ST.term
    sys.stderr = ST.termerr
    ops_out = []
    try:
        for idx, op in enumerate(scn['ops']):
            ST.cur_op = idx
            LOG.add('op_begin', idx, op['op'])
            res = {'op': idx, 'kind': op['op'], 'how': None, 'exc': None, 'value': None}
            snap0 = Snap()
            term0 = ST.term.tell()
            il_op0 = len(PEER.import_log)
            try:
                res['value'] = run_op(op, idx)
                res['how'] = 'returned'
            except BaseException as ex:      # noqa
                res['how'] = 'raised'
                res['exc'] = type(ex).__name__
                res['exc_is_exception'] = isinstance(ex, Exception)
                res['exc_msg'] = LOG.norm(str(ex))[:300]
                res['tb'] = LOG.norm(''.join(traceback.format_exception(type(ex), ex, ex.__traceback__)))[-3000:]
            res['snap0'] = snap0
            res['snap1'] = Snap()
            res['import_log'] = PEER.import_log[il_op0:]
            try:
                ST.term.seek(term0)
                res['term'] = ST.term.read()
            except Exception:
                res['term'] = None
            # a fault may have left globals broken; the *next* operation must
            # meet whatever state this one left (that is the point of histories),
            # but the harness needs its terminal back to keep observing.
            res['stdout_after'] = sys.stdout
            ops_out.append(res)
            gc.collect()
            LOG.add('op_end', idx, res['how'], res['exc'], loggable_value(res['value']))
            if scn.get('heal', True):
                heal(snap0)
    finally:
        sys.stdout, sys.stderr = real_out, real_err
        sys.settrace(None)
    digest = hashlib.sha256(worldmod.dumps(LOG.events).encode()).hexdigest()
    return {
        'scn': scn, 'meta': meta, 'ops': ops_out, 'execs': ST.execs, 'imports': ST.imports,
        'digest': digest, 'events': LOG.events, 'fired': list(PEER.fired) + [('stream:' + e, None, None, k) for k, e in ST.term.fired],
        'term': ST.term, 'peer_violations': list(PEER.violations),
        'sim_time': seams.simulated_loop_time() + ST.vclock.advanced,
        'trace_counts': dict(ST.trace_counts), 'n_events': len(LOG.events),
        'collections': ST.collections, 'out_of_scope': dict(ST.out_of_scope),
    }


def heal(snap0):
    """Between operations the harness restores nothing that xdoctest is
    responsible for -- except that it records what it *would* have to restore.
    State left behind by one operation is met by the next (C11/C12 histories)."""
    return


def loggable_value(v):
    if v is None:
        return None
    try:
        return json.loads(json.dumps(v, default=lambda o: LOG.norm(repr(o))[:80]))
    except Exception:
        return LOG.norm(repr(v))[:200]


def abspath_of(target):
    return os.path.join(ST.pkgroot, target)


def collect(target, style='auto', mode='native', analysis='auto'):
    from xdoctest import core
    path = abspath_of(target)
    with warnings.catch_warnings(record=True) as wl:
        examples = list(core.parse_doctestables(path, style=style, analysis=analysis))
    for ex in examples:
        ex.mode = mode
    coll = {}
    order = []
    for ex in examples:
        coll[dtid_of(ex)] = ex
        order.append(dtid_of(ex))
    return coll, order, [LOG.norm(str(w.message))[:200] for w in wl]


def run_op(op, idx):
    kind = op['op']
    xd = ST.xd
    if kind == 'collect':
        coll, order, warns = collect(op['target'], op.get('style', 'auto'), op.get('mode', 'native'),
                                     op.get('analysis', 'auto'))
        ST.collections[op.get('as', 'c')] = coll
        return {'order': order, 'warnings': warns,
                'linenos': {d: coll[d].lineno for d in order}}
    if kind == 'run_obj':
        name = op.get('coll', 'c')
        if op.get('fresh') or name not in ST.collections or op['dt'] not in ST.collections[name]:
            relpath = ST.meta[op['dt']]['relpath']
            coll, order, warns = collect(relpath, op.get('style', 'auto'), op.get('mode', 'native'))
            ST.collections.setdefault(name, {}).update(coll)
        if ST.scn.get('recollect_after_propagation') and ST.propagated.get((name, op['dt'])):
            # re-use of a DocTest object after a run that ended by a propagating
            # exception is outside C11's quantifier (DESIGN.md 7.7): take a fresh object
            relpath = ST.meta[op['dt']]['relpath']
            coll, order, warns = collect(relpath, op.get('style', 'auto'), op.get('mode', 'native'))
            ST.collections[name].update(coll)
            ST.propagated[(name, op['dt'])] = False
            ST.out_of_scope['recollected_after_propagation'] = ST.out_of_scope.get('recollected_after_propagation', 0) + 1
        dt = ST.collections[name].get(op['dt'])
        if dt is None:
            return {'missing': op['dt']}
        for k_, v_ in op.get('config', {}).items():
            dt.config[k_] = copy.deepcopy(v_)       # xdoctest never gets to share an object with the scenario
        if op.get('mode'):
            dt.mode = op['mode']
        try:
            if op.get('in_loop'):
                async def outer():
                    return dt.run(verbose=op.get('verbose', 0), on_error=op.get('on_error', 'return'))
                summary = asyncio.run(outer())
            else:
                summary = dt.run(verbose=op.get('verbose', 0), on_error=op.get('on_error', 'return'))
        except BaseException:
            ST.propagated[(name, op['dt'])] = True
            raise
        return {'verdict': 'passed' if summary['passed'] else 'failed' if summary['failed'] else 'skipped'}
    if kind == 'runner':
        from xdoctest import doctest_example
        config = doctest_example.DoctestConfig()
        config['colored'] = False
        for k_, v_ in op.get('config', {}).items():
            config[k_] = copy.deepcopy(v_)
        # (argv=None: the runner looks at the host program's own sys.argv for whatever was not given explicitly)
        rs = xd.doctest_module(abspath_of(op['target']), command=op.get('command', 'all'),
                               argv=None if op.get('argv_from_process') else [],
                               style=op.get('style', 'auto'), verbose=op.get('verbose', 0), config=config,
                               durations=op.get('durations'), analysis=op.get('analysis', 'auto'))
        out = {k_: v_ for k_, v_ in rs.items() if k_.startswith('n_') or k_ == 'action'}
        if 'failed' in rs:
            out['failed'] = [dtid_of(e) for e in rs['failed']]
        return out
    if kind == 'cli':
        from xdoctest import __main__ as xmain
        argv = ['xdoctest'] + [abspath_of(a[5:]) if a.startswith('PATH:') else a for a in op['argv']]
        rc = xmain.main(argv)
        # what the operating system would report for sys.exit(rc)
        status = 0 if rc is None else (rc & 0xFF) if isinstance(rc, int) else 1
        return {'rc': status, 'returned': rc if isinstance(rc, (int, type(None))) else repr(rc)}
    if kind == 'import_by_path':
        from xdoctest import utils
        mod = utils.import_module_from_path(abspath_of(op['module']), index=op.get('index', -1))
        return {'modname': mod.__name__}
    if kind == 'redirect':
        # the caller of xdoctest points sys.stdout somewhere else between two operations
        ST.term = SimStream('stdout-%d' % idx)
        sys.stdout = ST.term
        return {'redirected': True}
    if kind == 'import_zip':
        # a module that lives inside a zip archive (in a folder of it or at its top level)
        import zipfile
        from xdoctest import utils
        arch = os.path.join(ST.root, 'arch%d.zip' % idx)
        inner = op.get('inner', 'folder/zmod.py')
        body = 'X = 5\n' if not op.get('fail') else 'raise %s("sim: zipped module cannot be imported")\n' % op.get('exc', 'ValueError')
        with zipfile.ZipFile(arch, 'w') as z:
            z.writestr(inner, body)
            z.writestr('folder/zother.py', 'Y = 6\n')
        term0 = sys.stdout
        mod = utils.import_module_from_path(arch + op.get('sep', '/') + inner)
        return {'modname': LOG.norm(str(getattr(mod, '__name__', None)))}
    if kind == 'rewrite':
        # somebody edits a module between two operations of the same process: a want changes,
        # the size of the file and its modification time do not
        w2 = worldmod.world_at(ST.scn['world'], ST.scn['ops'], idx + 1)
        files, meta = worldmod.render_world(w2, ST.scn.get('env', {}))
        changed = []
        for rel, text in sorted(files.items()):
            path = os.path.join(ST.pkgroot, rel)
            with open(path) as f:
                old = f.read()
            if old != text:
                st_ = os.stat(path)
                with open(path, 'w') as f:
                    f.write(text)
                os.utime(path, ns=(st_.st_atime_ns, st_.st_mtime_ns))
                changed.append((rel, len(old) == len(text)))
        ST.meta = meta
        LOG.add('rewrite', changed)
        return {'changed': changed}
    if kind == 'setenv':
        # the environment REQUIRES is evaluated against changes between two operations
        seams.set_environment(op.get('environ', {}), op.get('argv', ['xdsim']))
        return {'environ': sorted(op.get('environ', {})), 'argv': op.get('argv', ['xdsim'])}
    if kind == 'probe':
        from xdoctest import doctest_example
        src = ">>> sim_probe = 21 * 2\n>>> print(sim_probe)\n42\n>>> print('probe-ok')\nprobe-ok\n"
        dt = doctest_example.DocTest(src, modpath=None, callname='simprobe', num=idx, lineno=1, mode='native')
        summary = dt.run(verbose=op.get('verbose', 0), on_error='return')
        return {'verdict': 'passed' if summary['passed'] else 'failed' if summary['failed'] else 'skipped',
                'logged': [dt.logged_stdout[i] for i in sorted(dt.logged_stdout)]}
    raise KeyError(kind)
