"""Seeded generators: worlds, doctests, plans.  Everything draws from the one
``random.Random`` it is handed, in a fixed order."""
import world as W

SIMPLE_FORMS = ['assign', 'expr', 'print', 'emit', 'write', 'for', 'if', 'with', 'try', 'multiline',
                'multicall', 'semi', 'semiemit', 'tq', 'tqprint', 'callmod', 'callmod_expr', 'comment']
ASYNC_FORMS = ['await', 'awaitexpr', 'awaitprint', 'gather', 'asyncwith', 'asyncfor', 'bgtask']
NPTS = {'for': 2, 'if': 2, 'try': 2, 'tryexc': 2, 'semi': 2, 'semiemit': 2, 'multicall': 2, 'asyncwith': 3,
        'asyncfor': 2, 'comment': 0, 'blankprompt': 0, 'directive': 0, 'defhelper': 0, 'defemit': 0, 'defclass': 0,
        'asyncdef': 0, 'badcompile': 0, 'usename': 0, 'useG': 0, 'useshadow': 0, 'delconst': 0, 'hasconst': 0,
        'decodef2': 2, 'chainexc': 2, 'bgtask': 3, 'useclass': 0, 'trysibling': 2, 'regappend': 0, 'keepout': 0, 'const': 0, 'loopval': 0, 'sharedcall': 0, 'mkdel': 0, 'gccollect': 0, 'futureimport': 0, 'strsemi': 0, 'defreprclass': 0, 'reprexpr': 0}
# forms whose source line cannot carry a trailing directive comment (strsemi ends in a comment
# of its own, and a directive is only recognised at the start of a comment)
NO_INLINE_FORMS = ('tq', 'tqprint', 'tqdirective', 'bgtask', 'defreprclass', 'strsemi')
MULTILINE_FORMS = {'bgtask', 'trysibling', 'chainexc', 'withswap', 'defreprclass', 'tqdirective', 'annot', 'for', 'if', 'with', 'try', 'tryexc', 'multiline', 'multicall', 'tq', 'tqprint', 'defhelper',
                   'defemit', 'asyncwith', 'asyncfor', 'asyncdef', 'defclass', 'decoclass', 'decoasync', 'decodef2'}
# forms in which a point may raise without the doctest's own code handling it
TB_FORMS = {'expr', 'print', 'emit', 'multiline', 'assign', 'callmod', 'callmod_expr', 'callhelper',
            'callhelper_expr', 'for', 'with', 'semi', 'write', 'awaitexpr', 'await', 'semiemit', 'try', 'if',
            'multicall', 'emitop', 'chainexc'}
# forms whose points are reached one after the other: the raising point may be
# a later one, so that the statement has already written to stdout (or bound a
# name) when the expected exception arrives
SEQ_FORMS = {'for', 'semi', 'semiemit', 'try', 'if', 'multicall'}
# forms that rebind / shadow / delete / read names that also exist at module
# level of the module under test, and decorated statements other than 'def'
NAMESPACE_FORMS = ['rebindG', 'useG', 'shadow', 'useshadow', 'delconst', 'hasconst']
DECORATED_FORMS = ['decoclass', 'decoasync', 'decodef2']
HARMLESS_DIRS = [[['+', 'ELLIPSIS', None]], [['-', 'SKIP', None]], [['+', 'NORMALIZE_WHITESPACE', None]],
                 [['-', 'IGNORE_WANT', None]], [['+', 'REQUIRES', 'linux']], [['-', 'REQUIRES', 'win32']],
                 [['+', 'ELLIPSIS', None], ['-', 'SKIP', None]]]
NOMINAL_EXCS = [
    {'exc': 'ValueError', 'msg': 'boom %s'},
    {'exc': 'ZeroDivisionError', 'msg': 'boom %s'},
    {'exc': 'RuntimeError', 'msg': 'boom: with: colons %s'},
    {'exc': 'AssertionError', 'msg': 'boom %s'},
    {'exc': 'ValueError', 'msg': None},
    {'exc': 'ValueError', 'msg': 'boom %s\nsecond line of message'},
    {'exc': 'mod:%(modname)s.SimLocalError', 'msg': 'boom %s'},
    {'exc': 'SimError', 'msg': 'boom %s'},
    {'exc': 'ValueError', 'msg': 'boom %s went wrong.'},
    {'exc': 'LookupError', 'msg': 'boom %s'},
    {'exc': 'Group1', 'msg': 'boom %s'},
    {'exc': 'ArithmeticError', 'msg': 'boom %s'},
    {'exc': 'RuntimeError', 'msg': 'boom %s in file data.txt'},
]


class Cfg(dict):
    __getattr__ = dict.__getitem__


def default_cfg(**kw):
    c = Cfg(
        min_steps=1, max_steps=7, forms=list(SIMPLE_FORMS), async_forms=[], p_async=0.0,
        p_ps2=0.4, p_want=0.45, p_tb=0.1, tb_kinds=['tb', 'tb', 'tbstack', 'tbbare', 'tbdots'],
        seps=['none', 'none', 'none', 'blank', 'prose'], p_helper=0.15, p_tabs=0.1,
        layouts=['google', 'google', 'freeform'], max_doctests_per_doc=2,
        n_modules=(1, 2), n_funcs=(1, 3), p_class=0.5, p_moddoc=0.3, p_subpkg=0.3,
        want_kinds=['acc', 'acc', 'last', 'repr'], p_say=0.0,
        p_dir=0.0, p_inline_dir=0.0, p_raise_later=0.5,
    )
    c.update(kw)
    return c


def gen_steps(rng, cfg, pfx, modname):
    n = rng.randint(cfg.min_steps, cfg.max_steps)
    steps = []
    helpers = []
    window_nonempty = False
    chunk_start = True
    deleted = False
    co_helpers = []         # coroutine functions defined by the doctest itself
    kept = []               # steps that kept a reference to sys.stdout
    reprdefs = []
    chunk_semi = False      # a ';' line in the current chunk makes its final expression run in REPL mode
    for i in range(n):
        forms = list(cfg.forms)
        if helpers:
            forms += ['callhelper', 'callhelper_expr']
        if deleted:
            forms = [f for f in forms if f != 'delconst'] or ['assign']
        if cfg.p_dir and rng.random() < cfg.p_dir:
            # a block directive that changes nothing the statements depend on:
            # it still cuts the doctest into parts at this line
            steps.append({'i': i, 'form': 'directive', 'pts': [], 'ps2': False,
                          'sep': rng.choice(['none', 'none', 'blank']) if i > 0 else 'none',
                          'dirs': rng.choice(HARMLESS_DIRS)})
            chunk_start = True
            if steps[-1]['sep'] != 'none':
                chunk_semi = False
            continue
        if rng.random() < cfg.p_say:
            form = 'say'
        elif rng.random() < cfg.p_helper:
            form = rng.choice(['defhelper', 'defemit'])
        elif cfg.async_forms and rng.random() < cfg.p_async:
            form = rng.choice(cfg.async_forms + (['awaitco', 'awaitco'] if co_helpers else ['asyncdef']))
        else:
            form = rng.choice(forms)
        npts = NPTS.get(form, 1)
        st = {'i': i, 'form': form,
              'pts': ['%ss%d%s' % (pfx, i, 'abc'[j]) for j in range(npts)],
              'ps2': rng.random() < cfg.p_ps2,
              'sep': rng.choice(cfg.seps) if i > 0 else 'none'}
        if form in ('tq', 'tqprint', 'tqdirective'):
            # unprefixed string lines followed by a '...' line are not a layout the
            # docs describe (the grouping pass cuts the statement in two): refuse
            st['ps2'] = False
        if form == 'bgtask':
            st['ps2'] = False       # two statements: each has its own primary prompt
        if form in ('defhelper', 'defemit'):
            st['pad'] = rng.choice([0, 0, 1, 3, 6])
            if form == 'defhelper' and rng.random() < 0.3:
                st['deco'] = True
            helpers.append(i)
        if form == 'writeout' and not kept:
            form = st['form'] = 'keepout'
            st['pts'] = []
        if form == 'reprexpr' and not reprdefs:
            form = st['form'] = 'defreprclass'
            st['pts'] = []
        if form == 'keepout':
            kept.append(i)
        if form == 'writeout':
            st['ref'] = rng.choice(kept)
        if form == 'defreprclass':
            reprdefs.append(i)
            st['ps2'] = False
        if form == 'reprexpr':
            st['ref'] = rng.choice(reprdefs)
            st['pts'] = []
        if form == 'withswap':
            st['ps2'] = rng.random() < 0.5
        if form == 'asyncdef':
            co_helpers.append(i)
        if form == 'awaitco':
            st['ref'] = rng.choice(co_helpers)
        if form in ('callhelper', 'callhelper_expr'):
            ref = rng.choice(helpers)
            st['ref'] = ref
            if steps[ref]['form'] == 'defemit':
                st['form'] = form = 'callhelper_emit'
        if form in ('callmod', 'callmod_expr'):
            st['depth'] = rng.randint(1, 3)
        if form == 'gather':
            k = rng.randint(2, 4)
            st['pts'] = ['%ss%d%s' % (pfx, i, 'abcd'[j]) for j in range(k)]
            st['delays'] = [rng.choice([0, 1, 2.5, 3600, 0.001]) for _ in range(k)]
        if form == 'modglobal':
            st['modname'] = modname
        if form == 'delconst':
            deleted = True
        if form == 'blankprompt':
            st['n'] = rng.choice([1, 1, 2])
            st['ps2'] = False
        if form == 'coroexpr':
            st['ps2'] = False
        if cfg.p_inline_dir and form not in W.NOCODE_FORMS and form not in NO_INLINE_FORMS and rng.random() < cfg.p_inline_dir:
            st['inline'] = rng.choice(HARMLESS_DIRS)
            st['inline_at'] = rng.choice(['first', 'last'])
            chunk_start = True      # an inline directive makes the statement a part of its own
        if steps and steps[-1]['form'] in ('bgtask', 'withswap') and not steps[-1].get('want'):
            # the pending task is cancelled when its part ends: nothing else in that part
            st['sep'] = 'blank'
        if st['sep'] != 'none':
            chunk_start = True
            chunk_semi = False
        # (a directive cuts the chunk into parts, but how the chunk's final expression
        # is evaluated -- REPL mode if a ';' line is present -- is decided for the
        # whole chunk: directives do not reset chunk_semi, only wants and separators do)
        # ---- want
        prints = bool(W.form_out(st))
        isexpr = W.is_expr(st)
        has_value = W.value_repr(st) is not None
        want = None
        r = rng.random()
        if form == 'coroexpr':
            # (in REPL mode the echoed repr -- with its address -- would be recorded output)
            want = None if chunk_semi else 'coro'
        elif form not in W.NOCODE_FORMS and form not in ('defhelper', 'defemit'):
            if r < cfg.p_tb and form in TB_FORMS and (isexpr or chunk_start):
                want = rng.choice(cfg.tb_kinds)
                e = dict(rng.choice(NOMINAL_EXCS))
                if '%(modname)s' in e['exc']:
                    e['exc'] = e['exc'] % {'modname': modname}
                if e['msg']:
                    e['msg'] = e['msg'] % W.tok(st['pts'][0])
                if want in ('tbell', 'tbell2') and not e['msg']:
                    want = 'tb'
                if e['exc'] == 'Group1' and rng.random() < 0.4:
                    want = 'tbmember'       # names the member instead of the group: must fail
                if form == 'chainexc':
                    st['raise_at'] = 1      # the exception that propagates comes from the handler
                    if rng.random() < 0.4:
                        want = 'tbinner'    # names the handled exception instead of the raised one: must fail
                st['exc'] = e
                if form in SEQ_FORMS and rng.random() < cfg.p_raise_later:
                    st['raise_at'] = 1
            elif r < cfg.p_tb + cfg.p_want:
                cands = []
                # (an unfinished line is completed, and checked, by a later statement)
                for wk in (cfg.want_kinds if form not in ('emitnoeol', 'emitcr') else []):
                    if wk == 'acc' and (prints or window_nonempty) and not has_value:
                        cands.append(wk)
                    if wk == 'last' and prints and isexpr:
                        cands.append(wk)
                    if wk == 'repr' and has_value:
                        cands.append(wk)
                if cfg.get('p_none_want') and form in ('emit', 'print') and not chunk_semi and rng.random() < cfg['p_none_want']:
                    # the statement's value is None: its repr is a want the property accepts
                    # (not in REPL mode, where a None value is not a value)
                    cands = ['none']
                if prints and has_value and chunk_semi:
                    # a statement that prints *and* has a value, run in REPL mode
                    # (';' in its chunk): which text satisfies a want there is what
                    # the documentation leaves open (DESIGN.md 5.3) -> no want
                    cands = []
                if cands:
                    want = rng.choice(cands)
        if want:
            st['want'] = want
            window_nonempty = False
            chunk_start = True
            chunk_semi = False
        else:
            if prints:
                window_nonempty = True
            chunk_start = bool(st.get('inline'))
        if form in ('semi', 'semiemit') and not want:
            chunk_semi = True
        steps.append(st)
    return steps


def indent_region(rng, steps):
    """shift a run of statements to a deeper column: it starts directly under a
    want and ends with the next want (or the doctest), so that both the step in
    and the step back out happen right after a want, with no blank line"""
    starts = [j for j in range(1, len(steps))
              if steps[j - 1].get('want') and steps[j].get('sep', 'none') == 'none']
    if not starts:
        return False
    j = rng.choice(starts)
    k = j
    while k < len(steps) - 1 and not steps[k].get('want') and steps[k + 1].get('sep', 'none') == 'none':
        k += 1
    if any(st['form'] in ('tq', 'tqprint', 'tqdirective') for st in steps[j:k + 1]):
        return False
    width = rng.choice([2, 4, 4, 8])
    for st in steps[j:k + 1]:
        st['indent'] = width
    return True


def gen_doc(rng, cfg, pfx, modname, indented=True):
    layout = rng.choice(cfg.layouts)
    doc = {'layout': layout, 'tabs': indented and rng.random() < cfg.p_tabs, 'doctests': []}
    if layout == 'freeform' and not doc['tabs'] and cfg.get('p_deep') and rng.random() < cfg['p_deep']:
        doc['deep'] = rng.choice([2, 4, 4])
    nd = 1 if layout == 'freeform' else rng.randint(1, cfg.max_doctests_per_doc)
    for d in range(nd):
        dt = {'steps': gen_steps(rng, cfg, '%sd%d' % (pfx, d), modname)}
        if layout == 'google' and cfg.get('p_header_prose') and rng.random() < cfg['p_header_prose']:
            # (inside an example block, deeper than the real section headers)
            dt['header_prose'] = True
        if cfg.get('p_indent') and rng.random() < cfg['p_indent']:
            indent_region(rng, dt['steps'])
        if layout == 'google':
            dt['tag'] = rng.choice(['Example', 'Example', 'Doctest'])
        doc['doctests'].append(dt)
    return doc


def gen_module(rng, cfg, mi, pkg):
    short = 'm%d' % mi
    modname = pkg + '.' + short if pkg else short
    relpath = modname.replace('.', '/') + '.py'
    pfx = 'q%d' % mi
    items = []
    if rng.random() < cfg.p_moddoc:
        items.append({'kind': 'moddoc', 'doc': gen_doc(rng, cfg, pfx + 'M', modname, indented=False)})
    nf = rng.randint(*cfg.n_funcs)
    for fi in range(nf):
        items.append({'kind': 'func', 'name': 'f%d' % fi, 'doc': gen_doc(rng, cfg, '%sf%d' % (pfx, fi), modname)})
    if rng.random() < cfg.p_class:
        cls = {'kind': 'class', 'name': 'K0', 'methods': []}
        if rng.random() < 0.5:
            cls['doc'] = gen_doc(rng, cfg, pfx + 'K', modname)
        for mj in range(rng.randint(1, 2)):
            m = {'name': 'meth%d' % mj, 'doc': gen_doc(rng, cfg, '%sk%d' % (pfx, mj), modname)}
            if cfg.get('p_name_clash') and rng.random() < cfg['p_name_clash']:
                m['name'] = 'f%d' % mj          # a method named like a module-level function
            r = rng.random()
            if r < 0.2:
                m['decos'] = ['staticmethod']
            elif r < 0.4:
                m['decos'] = ['classmethod']
            cls['methods'].append(m)
        items.append(cls)
    return {'name': modname, 'relpath': relpath, 'items': items}


def gen_world(rng, cfg):
    nm = rng.randint(*cfg.n_modules)
    world = {'modules': [], 'init_files': ['simpkg/__init__.py']}
    sub = rng.random() < cfg.p_subpkg
    subname = rng.choice(['sub', 'sub', '_sub'])      # a private sub-package is a package too
    if sub:
        world['init_files'].append('simpkg/%s/__init__.py' % subname)
    for mi in range(nm):
        pkg = ('simpkg.' + subname) if (sub and mi == nm - 1 and nm > 1) else 'simpkg'
        world['modules'].append(gen_module(rng, cfg, mi, pkg))
    return world


def add_skips(rng, steps, unmet='env:SIM_NOT_SET'):
    """switch parts of a doctest off with directives: everything, a tail, a
    region, single statements.  Statements and wants stay as they are."""
    base = max(st['i'] for st in steps) + 1

    def block(sign, name='SKIP', arg=None):
        nonlocal base
        base += 1
        return {'i': base, 'form': 'directive', 'pts': [], 'ps2': False, 'sep': 'none', 'dirs': [[sign, name, arg]]}
    how = rng.choice(['all', 'all_requires', 'tail', 'region', 'inline', 'inline', 'head', 'island'])
    n = len(steps)
    if how == 'all':
        steps.insert(0, block('+'))
    elif how == 'all_requires':
        steps.insert(0, block('+', 'REQUIRES', unmet))
    elif how == 'tail':
        steps.insert(rng.randint(1, n), block('+', rng.choice(['SKIP', 'SKIP', 'REQUIRES']), unmet))
        if steps[-1]['form'] == 'directive' and steps[-1]['dirs'][0][1] == 'REQUIRES':
            steps[-1]['dirs'][0][2] = unmet
    elif how == 'region':
        a = rng.randint(0, n)
        b = rng.randint(a, n)
        steps.insert(b, block('-'))
        steps.insert(a, block('+'))
    elif how == 'head':
        steps.insert(rng.randint(0, n), block('-'))
        steps.insert(0, block('+'))
    elif how == 'island':
        # everything is switched off by a leading block directive, single statements switch
        # themselves back on
        cands = [st for st in steps if st['form'] not in W.NOCODE_FORMS and st['form'] not in NO_INLINE_FORMS and not st.get('inline')]
        for st in rng.sample(cands, min(len(cands), rng.randint(1, 2))):
            st['inline'] = [['-', 'SKIP', None]]
            st['inline_at'] = rng.choice(['first', 'last'])
        steps.insert(0, block('+'))
    else:
        cands = [st for st in steps if st['form'] not in W.NOCODE_FORMS and st['form'] not in NO_INLINE_FORMS and not st.get('inline')]
        for st in rng.sample(cands, min(len(cands), rng.randint(1, 2))):
            st['inline'] = [['+', 'SKIP', None]]
            st['inline_at'] = rng.choice(['first', 'last'])
    for st in steps:
        if st['form'] == 'directive':
            if st['dirs'][0][1] != 'REQUIRES':
                st['dirs'][0][2] = None
    steps[0]['sep'] = 'none'
    fix_chunk_starts(steps)
    return how


def all_points(world):
    """-> list of dicts {dtid, pid, step index, form, nsteps}"""
    out = []
    for dtid, dt, mod in W.iter_doctests(world):
        n = len(dt['steps'])
        for st in dt['steps']:
            for j, p in enumerate(st.get('pts', [])):
                out.append({'dtid': dtid, 'pid': p, 'i': st['i'], 'j': j, 'form': st['form'], 'nsteps': n,
                            'want': st.get('want'), 'raise_at': st.get('raise_at', 0)})
    return out


def doctest_ids(world):
    return [dtid for dtid, dt, mod in W.iter_doctests(world) if not dt.get('zero_arg')]


def add_zero_funcs(rng, mod, n, pfx='z'):
    """functions without a docstring that can be called without arguments: the native runner
    turns them into implicit examples when nothing documented matches the command.
    -> [(dtid, pid)]"""
    out = []
    short = mod['name'].split('.')[-1]
    for j in range(n):
        name = 'z%d' % j
        pid = '%s%s%ss0a' % (pfx, short, name)
        mod['items'].append({'kind': 'zfunc', 'name': name, 'pid': pid, 'emits': rng.random() < 0.4})
        out.append(('%s::%s:0' % (mod['name'], name), pid))
    return out


def fix_chunk_starts(steps):
    """after steps were inserted/removed/simplified: restore the layout rules of
    gen_steps by a blank line where needed -- a traceback want may only sit on a
    statement that is a part of its own (an expression statement, or the first
    statement of its chunk); a statement that prints *and* has a value carries a
    want only if no ';' line shares its chunk"""
    prev = None
    semi = False
    for st in steps:
        if st.get('sep', 'none') != 'none' or (prev is not None and prev.get('want')):
            semi = False
        w = st.get('want') or ''
        if w.startswith('tb') and not W.is_expr(st) and prev is not None:
            if not prev.get('want') and st.get('sep', 'none') == 'none' and prev['form'] != 'directive' and not prev.get('inline') \
                    and not st.get('inline'):
                st['sep'] = 'blank'
                semi = False
        if (w and st['form'] in ('emitop', 'coroexpr') and semi) or (w == 'none' and semi):
            st['sep'] = 'blank'
            semi = False
        if prev is not None and prev['form'] in ('bgtask', 'withswap') and not prev.get('want') and st.get('sep', 'none') == 'none':
            st['sep'] = 'blank'
        if st['form'] == 'badcompile' and prev is not None and st.get('sep', 'none') == 'none':
            # a statement that does not compile takes its whole part with it: it starts a chunk
            # of its own, so that what was written before it is a part that runs
            st['sep'] = 'blank'
            semi = False
        if st.get('indent') and (prev is None or not (prev.get('indent') or (prev.get('want') and st.get('sep', 'none') == 'none'))):
            # a deeper column only directly under a want (or continuing one)
            st['indent'] = 0
        if st['form'] in ('semi', 'semiemit'):
            semi = True
        prev = st
