"""Seeded generators: worlds, doctests, plans.  Everything draws from the one
``random.Random`` it is handed, in a fixed order."""
import world as W

SIMPLE_FORMS = ['assign', 'expr', 'print', 'emit', 'write', 'for', 'if', 'with', 'try', 'multiline',
                'multicall', 'semi', 'semiemit', 'tq', 'tqprint', 'callmod', 'callmod_expr', 'comment']
ASYNC_FORMS = ['await', 'awaitexpr', 'awaitprint', 'gather', 'asyncwith', 'asyncfor']
NPTS = {'for': 2, 'if': 2, 'try': 2, 'tryexc': 2, 'semi': 2, 'semiemit': 2, 'multicall': 2, 'asyncwith': 3,
        'asyncfor': 2, 'comment': 0, 'directive': 0, 'defhelper': 0, 'defemit': 0, 'defclass': 0,
        'asyncdef': 0, 'badcompile': 0, 'usename': 0}
MULTILINE_FORMS = {'for', 'if', 'with', 'try', 'tryexc', 'multiline', 'multicall', 'tq', 'tqprint', 'defhelper',
                   'defemit', 'asyncwith', 'asyncfor', 'asyncdef', 'defclass'}
# forms whose first point may raise before the statement wrote anything and
# without the doctest's own code handling it
TB_FORMS = {'expr', 'print', 'emit', 'multiline', 'assign', 'callmod', 'callmod_expr', 'callhelper',
            'callhelper_expr', 'for', 'with', 'semi', 'write', 'awaitexpr', 'await'}
NOMINAL_EXCS = [
    {'exc': 'ValueError', 'msg': 'boom %s'},
    {'exc': 'ZeroDivisionError', 'msg': 'boom %s'},
    {'exc': 'RuntimeError', 'msg': 'boom: with: colons %s'},
    {'exc': 'AssertionError', 'msg': 'boom %s'},
    {'exc': 'ValueError', 'msg': None},
    {'exc': 'ValueError', 'msg': 'boom %s\nsecond line of message'},
    {'exc': 'mod:%(modname)s.SimLocalError', 'msg': 'boom %s'},
    {'exc': 'SimError', 'msg': 'boom %s'},
]


class Cfg(dict):
    __getattr__ = dict.__getitem__


def default_cfg(**kw):
    c = Cfg(
        min_steps=1, max_steps=7, forms=list(SIMPLE_FORMS), async_forms=[], p_async=0.0,
        p_ps2=0.4, p_want=0.45, p_tb=0.1, tb_kinds=['tb', 'tb', 'tbstack', 'tbbare'],
        seps=['none', 'none', 'none', 'blank', 'prose'], p_helper=0.15, p_tabs=0.1,
        layouts=['google', 'google', 'freeform'], max_doctests_per_doc=2,
        n_modules=(1, 2), n_funcs=(1, 3), p_class=0.5, p_moddoc=0.3, p_subpkg=0.3,
        want_kinds=['acc', 'acc', 'last', 'repr'], p_say=0.0,
    )
    c.update(kw)
    return c


def gen_steps(rng, cfg, pfx, modname):
    n = rng.randint(cfg.min_steps, cfg.max_steps)
    steps = []
    helpers = []
    window_nonempty = False
    chunk_start = True
    for i in range(n):
        forms = list(cfg.forms)
        if helpers:
            forms += ['callhelper', 'callhelper_expr']
        if rng.random() < cfg.p_say:
            form = 'say'
        elif rng.random() < cfg.p_helper:
            form = rng.choice(['defhelper', 'defemit'])
        elif cfg.async_forms and rng.random() < cfg.p_async:
            form = rng.choice(cfg.async_forms)
        else:
            form = rng.choice(forms)
        npts = NPTS.get(form, 1)
        st = {'i': i, 'form': form,
              'pts': ['%ss%d%s' % (pfx, i, 'abc'[j]) for j in range(npts)],
              'ps2': rng.random() < cfg.p_ps2,
              'sep': rng.choice(cfg.seps) if i > 0 else 'none'}
        if form in ('tq', 'tqprint'):
            # unprefixed string lines followed by a '...' line are not a layout the
            # docs describe (the grouping pass cuts the statement in two): refuse
            st['ps2'] = False
        if form in ('defhelper', 'defemit'):
            st['pad'] = rng.choice([0, 0, 1, 3, 6])
            if form == 'defhelper' and rng.random() < 0.3:
                st['deco'] = True
            helpers.append(i)
        if form in ('callhelper', 'callhelper_expr'):
            ref = rng.choice(helpers)
            st['ref'] = ref
            if steps[ref]['form'] == 'defemit':
                st['form'] = form = 'callhelper_emit'
        if form in ('callmod', 'callmod_expr'):
            st['depth'] = rng.randint(1, 3)
        if form == 'gather':
            k = rng.randint(2, 4)
            st['pts'] = ['%ss%d%s' % (pfx, i, 'abcd'[j]) for j in range(k)]
            st['delays'] = [rng.choice([0, 1, 2.5, 3600, 0.001]) for _ in range(k)]
        if form == 'modglobal':
            st['modname'] = modname
        if st['sep'] != 'none':
            chunk_start = True
        # ---- want
        prints = bool(W.form_out(st))
        isexpr = W.is_expr(st)
        has_value = W.value_repr(st) is not None
        want = None
        r = rng.random()
        if form not in W.NOCODE_FORMS and form not in ('defhelper', 'defemit'):
            if r < cfg.p_tb and form in TB_FORMS and (isexpr or chunk_start):
                want = rng.choice(cfg.tb_kinds)
                e = dict(rng.choice(NOMINAL_EXCS))
                if '%(modname)s' in e['exc']:
                    e['exc'] = e['exc'] % {'modname': modname}
                if e['msg']:
                    e['msg'] = e['msg'] % W.tok(st['pts'][0])
                if want == 'tbell' and not e['msg']:
                    want = 'tb'
                st['exc'] = e
            elif r < cfg.p_tb + cfg.p_want:
                cands = []
                for wk in cfg.want_kinds:
                    if wk == 'acc' and (prints or window_nonempty) and not has_value:
                        cands.append(wk)
                    if wk == 'last' and prints and isexpr:
                        cands.append(wk)
                    if wk == 'repr' and has_value:
                        cands.append(wk)
                if cands:
                    want = rng.choice(cands)
        if want:
            st['want'] = want
            window_nonempty = False
            chunk_start = True
        else:
            if prints:
                window_nonempty = True
            chunk_start = False
        steps.append(st)
    return steps


def gen_doc(rng, cfg, pfx, modname, indented=True):
    layout = rng.choice(cfg.layouts)
    doc = {'layout': layout, 'tabs': indented and rng.random() < cfg.p_tabs, 'doctests': []}
    nd = 1 if layout == 'freeform' else rng.randint(1, cfg.max_doctests_per_doc)
    for d in range(nd):
        dt = {'steps': gen_steps(rng, cfg, '%sd%d' % (pfx, d), modname)}
        if layout == 'google':
            dt['tag'] = rng.choice(['Example', 'Example', 'Doctest'])
        doc['doctests'].append(dt)
    return doc


def gen_module(rng, cfg, mi, pkg):
    short = 'm%d' % mi
    modname = pkg + '.' + short if pkg else short
    relpath = modname.replace('.', '/') + '.py'
    pfx = 'q%d' % mi
    items = []
    if rng.random() < cfg.p_moddoc:
        items.append({'kind': 'moddoc', 'doc': gen_doc(rng, cfg, pfx + 'M', modname, indented=False)})
    nf = rng.randint(*cfg.n_funcs)
    for fi in range(nf):
        items.append({'kind': 'func', 'name': 'f%d' % fi, 'doc': gen_doc(rng, cfg, '%sf%d' % (pfx, fi), modname)})
    if rng.random() < cfg.p_class:
        cls = {'kind': 'class', 'name': 'K0', 'methods': []}
        if rng.random() < 0.5:
            cls['doc'] = gen_doc(rng, cfg, pfx + 'K', modname)
        for mj in range(rng.randint(1, 2)):
            m = {'name': 'meth%d' % mj, 'doc': gen_doc(rng, cfg, '%sk%d' % (pfx, mj), modname)}
            r = rng.random()
            if r < 0.2:
                m['decos'] = ['staticmethod']
            elif r < 0.4:
                m['decos'] = ['classmethod']
            cls['methods'].append(m)
        items.append(cls)
    return {'name': modname, 'relpath': relpath, 'items': items}


def gen_world(rng, cfg):
    nm = rng.randint(*cfg.n_modules)
    world = {'modules': [], 'init_files': ['simpkg/__init__.py']}
    sub = rng.random() < cfg.p_subpkg
    if sub:
        world['init_files'].append('simpkg/sub/__init__.py')
    for mi in range(nm):
        pkg = 'simpkg.sub' if (sub and mi == nm - 1 and nm > 1) else 'simpkg'
        world['modules'].append(gen_module(rng, cfg, mi, pkg))
    return world


def all_points(world):
    """-> list of dicts {dtid, pid, step index, form, nsteps}"""
    out = []
    for dtid, dt, mod in W.iter_doctests(world):
        n = len(dt['steps'])
        for st in dt['steps']:
            for j, p in enumerate(st.get('pts', [])):
                out.append({'dtid': dtid, 'pid': p, 'i': st['i'], 'j': j, 'form': st['form'], 'nsteps': n,
                            'want': st.get('want')})
    return out


def doctest_ids(world):
    return [dtid for dtid, dt, mod in W.iter_doctests(world)]


def fix_chunk_starts(steps):
    """after steps were inserted/removed: a traceback want may only sit on a
    statement that is a part of its own (an expression statement, or the first
    statement of its chunk); restore that by a blank line where needed"""
    prev = None
    for st in steps:
        w = st.get('want') or ''
        if w.startswith('tb') and not W.is_expr(st) and prev is not None:
            if not prev.get('want') and st.get('sep', 'none') == 'none':
                st['sep'] = 'blank'
        prev = st
