"""Reference directive machine (no xdoctest imports).

Persistent state (flags + set of unmet requirements) changed by block
directives; a per-statement overlay for inline directives.  A statement is
executed iff, with its overlay applied, SKIP is off and no unmet REQUIRES is
pending.  This is C04's statement, written down once.
"""

DEFAULT_FLAGS = {
    'SKIP': False, 'IGNORE_WANT': False, 'IGNORE_EXCEPTION_DETAIL': False, 'ELLIPSIS': True,
    'NORMALIZE_WHITESPACE': True, 'IGNORE_WHITESPACE': False, 'NORMALIZE_REPR': True,
    'DONT_ACCEPT_BLANKLINE': False,
}

TRUE_TAGS = {'linux', 'posix', 'cpython', 'py3'}
FALSE_TAGS = {'win32', 'nt', 'pypy', 'py2', 'darwin', 'jython', 'java'}


def is_met(arg, env):
    """is the REQUIRES argument satisfied in the simulated environment?
    -> True / False / 'malformed'"""
    environ = env.get('environ', {})
    argv = env.get('argv', ['xdsim'])
    if arg.startswith('-'):
        return arg in argv
    if arg.startswith(('module:', 'env:')) and arg.count(':') != 1:
        return 'malformed'
    if arg.startswith('module:'):
        return arg[7:] in env.get('modules', ['os', 'json', 'json.decoder', 'xdoctest.utils'])
    if arg.startswith('env:'):
        expr = arg[4:]
        if '==' in expr:
            k, v = expr.split('==', 1)
            return environ.get(k) == v
        if '!=' in expr:
            k, v = expr.split('!=', 1)
            return environ.get(k) != v
        return bool(environ.get(expr))
    if arg.lower() in TRUE_TAGS:
        return True
    if arg.lower() in FALSE_TAGS:
        return False
    return 'malformed'


class Machine:
    def __init__(self, env, defaults=None):
        self.env = env
        self.flags = dict(DEFAULT_FLAGS)
        self.requires = set()
        for k, v in (defaults or {}).items():
            self.flags[k] = v

    def _apply(self, dirs, flags, requires):
        """-> 'malformed' if a directive cannot be evaluated"""
        for sign, name, arg in dirs:
            positive = (sign != '-')
            if name == 'REQUIRES':
                for a in [x.strip() for x in (arg or '').split(',') if x.strip()]:
                    m = is_met(a, self.env)
                    if m == 'malformed':
                        return 'malformed'
                    if m:
                        continue
                    if positive:
                        requires.add(a)
                    else:
                        requires.discard(a)
            elif name.startswith('REPORT_'):
                continue
            else:
                flags[name] = positive
        return None

    def block(self, dirs):
        return self._apply(dirs, self.flags, self.requires)

    def effective(self, inline_dirs):
        """-> (flags, requires, malformed?) for one statement"""
        flags = dict(self.flags)
        requires = set(self.requires)
        bad = None
        if inline_dirs:
            bad = self._apply(inline_dirs, flags, requires)
        return flags, requires, bad

    @staticmethod
    def runs(flags, requires):
        return (not flags['SKIP']) and not requires


def executed_flags(steps, env, defaults=None):
    """per step: True if the statement is executed under the nominal flow
    (ignoring failures), False if skipped / not code."""
    m = Machine(env, defaults)
    out = []
    for st in steps:
        if st['form'] == 'directive':
            m.block(st['dirs'])
            out.append(False)
            continue
        flags, req, bad = m.effective(st.get('inline'))
        out.append(Machine.runs(flags, req) and st['form'] not in ('comment', 'blankprompt'))
    return out
