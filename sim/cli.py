#!/venv/bin/python
"""Command line of the simulation checks.

  cli.py check <ID> [--tier quick|thorough] [--n N] [--jobs J]
  cli.py replay <file>
  cli.py selftest [--fast]
  cli.py show <ID> <index>        print the generated scenario for an index

Environment: VERIF_SEED, VERIF_TIER, VERIF_JOBS, VERIF_BUDGET_S, VERIF_REPO.
Exit: 0 clean, 1 violation (VIOLATION line), 2 harness error, 3 replay not reproduced.
"""
import os
import sys

# hash order is one of the closed-off sources of nondeterminism
if os.environ.get('PYTHONHASHSEED') is None:
    os.environ['PYTHONHASHSEED'] = '0'
    os.execv(sys.executable, [sys.executable] + sys.argv)

HERE = os.path.dirname(os.path.abspath(__file__))
sys.path.insert(0, HERE)
sys.dont_write_bytecode = True

import argparse   # noqa: E402
import json       # noqa: E402

DEFAULT_SEEDS = {'C01': 101, 'C02': 202, 'C03': 303, 'C04': 404, 'C09': 909, 'C10': 1010, 'C11': 1111, 'C12': 1212}


def main():
    ap = argparse.ArgumentParser()
    sub = ap.add_subparsers(dest='cmd')
    c = sub.add_parser('check')
    c.add_argument('pid')
    c.add_argument('--tier', default=os.environ.get('VERIF_TIER', 'quick'))
    c.add_argument('--n', type=int, default=None)
    c.add_argument('--jobs', type=int, default=int(os.environ.get('VERIF_JOBS', os.cpu_count() or 4)))
    r = sub.add_parser('replay')
    r.add_argument('path')
    s = sub.add_parser('selftest')
    s.add_argument('--fast', action='store_true')
    dg = sub.add_parser('digests')
    dg.add_argument('pid')
    dg.add_argument('n', type=int)
    dg.add_argument('--jobs', type=int, default=4)
    dg.add_argument('--seed', type=int, default=77)
    sh = sub.add_parser('show')
    sh.add_argument('pid')
    sh.add_argument('index', type=int)
    sh.add_argument('--tier', default='quick')
    args = ap.parse_args()
    import check
    if args.cmd == 'check':
        seed = int(os.environ.get('VERIF_SEED', DEFAULT_SEEDS.get(args.pid, 1)))
        budget = os.environ.get('VERIF_BUDGET_S')
        print('%s: VERIF_SEED=%d tier=%s jobs=%d repo=%s' % (args.pid, seed, args.tier, args.jobs,
                                                          os.environ.get('VERIF_REPO', '/repo')))
        sys.stdout.flush()
        rc = check.run_check(args.pid, args.tier, seed, args.jobs, n_override=args.n,
                             budget=float(budget) if budget else None)
        sys.exit(rc)
    if args.cmd == 'replay':
        sys.exit(check.replay(args.path))
    if args.cmd == 'selftest':
        import selftest
        sys.exit(selftest.main(fast=args.fast))
    if args.cmd == 'digests':
        import selftest
        print(json.dumps(selftest.digests(args.pid, args.n, args.jobs, args.seed)))
        return
    if args.cmd == 'show':
        import engine
        import world as W
        seed = int(os.environ.get('VERIF_SEED', DEFAULT_SEEDS.get(args.pid, 1)))
        prof = check.get_profile(args.pid)
        scn = prof.generate(engine.rng_for(seed, args.pid, args.index), args.tier)
        files, meta = W.render_world(scn['world'], scn.get('env', {}))
        print(json.dumps({'ops': scn['ops'], 'plan': scn['plan'], 'env': scn['env']}, indent=1))
        for k, v in files.items():
            if v:
                print('-----', k)
                print(v)
        return
    ap.print_help()
    sys.exit(2)


if __name__ == '__main__':
    main()
