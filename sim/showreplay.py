import json, sys
d=json.load(open(sys.argv[1]))
print('RULE', d['rule']); print('DETAIL', d['detail']); print('NOTE', d['note'])
print('OPS', json.dumps(d['scenario']['ops'])); print('PLAN', json.dumps(d['scenario']['plan'])); print('ENV', json.dumps(d['scenario'].get('env')))
for k,v in d['rendered_files'].items():
    if v:
        print('----',k)
        i=v.find('def modhelper3')
        print(v[:v.find('import os')] + v[v.find('\n', v.find('return modhelper2'))+1:] if i>=0 else v)
