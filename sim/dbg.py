#!/venv/bin/python
"""dbg.py <replay.json>: run the scenario of a replay file in this process and
print what every execution did (debugging aid, not part of any check)."""
import json, os, sys, shutil
os.environ.setdefault('PYTHONHASHSEED', '0')
HERE = os.path.dirname(os.path.abspath(__file__))
sys.path.insert(0, HERE); sys.path.insert(0, os.path.join(HERE, 'oracles'))
import check, harness, engine, expect
doc = json.load(open(sys.argv[1]))
scn = doc['scenario']
root = '/dev/shm/xdsim-dbg'
shutil.rmtree(root, ignore_errors=True); os.makedirs(root)
scn = check.resolve_traces(scn, root)
rec = harness.execute(scn, root)
prof = check.get_profile(doc['property'])
if hasattr(prof, 'prepare'):
    rec['ctx'] = prof.prepare(scn, root)
viols = prof.check(rec)
for e in rec['execs']:
    print('EXEC', e['dtid'], e['k'], e['how'], e['exc'], e['summary'])
    print('  hits', e['hits'])
    print('  logged', e['logged_stdout'])
    print('  bindings', e.get('bindings'), e.get('bindings_left'))
    E = e.get('E')
    if E is not None:
        print('  MODEL verdict', E.verdict, E.exc_names, 'gw', E.gotwant, 'step', E.fail_step, 'silent', E.silent, E.notes)
        print('  MODEL hits', E.hits)
        print('  MODEL out', E.step_out)
        print('  MODEL bindings', E.bindings)
for o in rec['ops']:
    print('OP', o['op'], o['kind'], o['how'], o['exc'], o.get('exc_msg'), o['value'])
    if o.get('tb'): print(o['tb'])
    if '-v' in sys.argv: print(o['term'])
for v in viols:
    print('VIOL', v['rule'], v['detail'])
shutil.rmtree(root, ignore_errors=True)
for e in rec['execs']:
    if e.get('trace'): print('TRACE', e['dtid'], e['k'], e['trace'])
print('FIRED', rec['fired'])
