"""C11 -- runs are isolated: a doctest behaves the same whatever ran before it.

Histories over collected DocTest objects and fresh re-collections: seeded
order, subsets, repetitions of the same object, object-level runs interleaved
with runner operations, with faults in earlier executions.  The oracle is
metamorphic and does not lean on the reference model: every execution of the
history is compared with the *same doctest under the same per-execution plan
executed alone in a fresh forked process*.
"""
import copy
import json
import os
import shutil

import common
import engine
import expect
import gen
import harness
import world as W

ID = 'C11'
LEVEL = 'exploration'
N_QUICK = 1500
N_THOROUGH = 20000
ASSUMPTIONS = [
    'behaviour that is legitimately history dependent is held constant inside a scenario: import behaviour is per module, '
    'the peer never mutates module state on the doctest\'s behalf, environment and module availability do not change mid-history',
    're-use of a DocTest object after a run that ended by a propagating exception is outside the quantifier (the harness takes a fresh object; counted as out_of_scope_observations)',
]

SPECIAL = ['names', 'names', 'names', 'rebindG', 'rebindG', 'modglobal', 'modglobal', 'say', 'say', 'usename',
           'defclass', 'useclass', 'modglobal', 'trysibling', 'modsay', 'modsay', 'annot', 'annot', 'keepglobal', 'writekept', 'writekept']
TRAILERS = [[['+', 'SKIP', None]], [['+', 'REQUIRES', 'env:SIM_NOT_SET']], [['+', 'REQUIRES', '--sim-absent']],
            [['-', 'REPORT_UDIFF', None]], [['+', 'IGNORE_WANT', None]], [['-', 'ELLIPSIS', None]],
            [['-', 'NORMALIZE_WHITESPACE', None]], [['+', 'IGNORE_EXCEPTION_DETAIL', None]]]
FAULTS = ['raise', 'raise', 'wrong', 'mute', 'mute', 'interrupt', 'swap_stdout', 'warn_filters', 'warn', 'early_exit',
          'extra_line']


def add_special_steps(rng, dt, pfx, modname, others=()):
    steps = dt['steps']
    base = max(st['i'] for st in steps) + 1
    for j in range(rng.randint(1, 3)):
        form = rng.choice(SPECIAL)
        st = {'i': base + j, 'form': form, 'pts': ['%ss%da' % (pfx, base + j)], 'ps2': False, 'sep': rng.choice(['none', 'blank'])}
        if form == 'modglobal':
            st['modname'] = modname
        if form == 'usename':
            st['pts'] = []
            st['ref'] = rng.randint(0, 6)
        if form in ('defclass', 'useclass'):
            st['pts'] = []
        if form == 'trysibling':
            st['pts'] = ['%ss%d%s' % (pfx, base + j, c) for c in 'ab']
        if form == 'say':
            st['text'] = 'ok'
        pos = rng.randint(0, len(steps))
        steps.insert(pos, st)
    # shared, want-less tail + a want on shared lines early on
    if rng.random() < 0.5:
        b2 = base + 5
        early = [{'i': b2, 'form': 'say', 'pts': ['%ss%da' % (pfx, b2)], 'text': 'ok', 'ps2': False, 'sep': 'none'},
                 {'i': b2 + 1, 'form': 'say', 'pts': ['%ss%da' % (pfx, b2 + 1)], 'text': 'ok', 'ps2': False, 'sep': 'none',
                  'want': 'acc'}]
        steps[0:0] = early
        if len(steps) > 2:
            steps[2]['sep'] = steps[2].get('sep') or 'none'
        tail = {'i': b2 + 2, 'form': 'say', 'pts': ['%ss%da' % (pfx, b2 + 2)], 'text': 'ok', 'ps2': False,
                'sep': rng.choice(['none', 'blank'])}
        steps.append(tail)
    if rng.random() < 0.4:
        steps.append({'i': base + 9, 'form': 'directive', 'pts': [], 'ps2': False, 'sep': 'none',
                      'dirs': rng.choice(TRAILERS)})
        if rng.random() < 0.5:
            steps.append({'i': base + 10, 'form': 'comment', 'pts': [], 'ps2': False, 'sep': 'none'})
    if rng.random() < 0.25:
        # the same value checked against the same want in several doctests, under flags that
        # differ from doctest to doctest (what one doctest's comparison found is its own)
        b3 = base + 20
        sv = {'i': b3, 'form': 'sayval', 'pts': ['%ss%da' % (pfx, b3)], 'ps2': False, 'sep': 'blank', 'want': 'okell'}
        steps.insert(rng.randint(0, len(steps)), sv)
        if rng.random() < 0.5:
            steps.insert(0, {'i': b3 + 1, 'form': 'directive', 'pts': [], 'ps2': False, 'sep': 'none',
                             'dirs': [rng.choice([['-', 'ELLIPSIS', None], ['-', 'NORMALIZE_REPR', None]])]})
        steps[0]['sep'] = 'none'
    if rng.random() < 0.25:
        # the same two-line loop in several doctests, written with '...' in some and with
        # '>>>' in others (how one doctest's text was parsed is its own business)
        b4 = base + 30
        steps.insert(rng.randint(0, len(steps)), {'i': b4, 'form': 'loopval', 'pts': [], 'ps2': rng.random() < 0.5,
                                                  'sep': 'blank', 'want': 'loopecho'})
        steps[0]['sep'] = 'none'
    if rng.random() < 0.12:
        # this doctest switches a compile-time feature on for itself
        steps.insert(0, {'i': base + 50, 'form': 'futureimport', 'pts': [], 'ps2': False, 'sep': 'none'})
        if len(steps) > 1:
            steps[1]['sep'] = rng.choice(['none', 'blank'])
    if rng.random() < 0.2:
        # everything depends on something in the environment that is there at first
        steps.insert(0, {'i': base + 40, 'form': 'directive', 'pts': [], 'ps2': False, 'sep': 'none',
                         'dirs': [['+', 'REQUIRES', rng.choice(['env:SIM_A==1', '--sim-flag', 'env:SIM_A'])]]})
        if len(steps) > 1:
            steps[1]['sep'] = 'none'
    if others and rng.random() < 0.12:
        # everything depends on a module that the static lookup cannot find (the package is
        # not on sys.path): unmet, whatever has been imported in this process meanwhile
        steps.insert(0, {'i': base + 11, 'form': 'directive', 'pts': [], 'ps2': False, 'sep': 'none',
                         'dirs': [['+', 'REQUIRES', 'module:' + rng.choice(others)]]})
        if len(steps) > 1:
            steps[1]['sep'] = 'none'
    gen.fix_chunk_starts(steps)


def generate(rng, tier):
    cfg = gen.default_cfg(p_want=0.35, p_tb=0.05, max_steps=rng.choice([2, 4, 6]), p_helper=0.1)
    cfg['n_modules'] = (1, 2)
    cfg['n_funcs'] = (1, 3)
    cfg['forms'] = ['assign', 'assign', 'assign', 'expr', 'print', 'emit', 'emit', 'for', 'with', 'semi', 'callmod', 'comment']
    flavour = rng.choice(['plain', 'plain', 'plain', 'plain', 'async', 'global_exec', 'finaliser'])
    if flavour == 'async':
        # doctests that await, some leaving a background task pending when a part ends
        cfg['async_forms'] = ['await', 'awaitprint', 'bgtask', 'bgtask', 'gather']
        cfg['p_async'] = 0.5
    if flavour == 'global_exec':
        # every doctest of the run starts from a preamble that makes a fresh object
        cfg['forms'] = cfg['forms'] + ['regappend', 'regappend', 'regappend']
    world = gen.gen_world(rng, cfg)
    n = 0
    for dtid, dt, mod in W.iter_doctests(world):
        pfx = None
        for st in dt['steps']:
            if st.get('pts'):
                pfx = st['pts'][0].split('s')[0]
                break
        if pfx is None:
            pfx = 'zz%d' % n
        n += 1
        add_special_steps(rng, dt, pfx, mod['name'], [m['name'] for m in world['modules']])
    if flavour == 'finaliser':
        # doctests that leave an object with a printing finaliser behind, and doctests that ask for
        # a garbage collection: what one doctest left is gone when its run is over, not later
        for dtid, dt, mod in W.iter_doctests(world):
            b = max(st['i'] for st in dt['steps']) + 70
            if rng.random() < 0.6:
                dt['steps'].insert(rng.randint(0, len(dt['steps'])), {'i': b, 'form': 'mkdel', 'pts': [], 'ps2': False, 'sep': 'blank'})
            if rng.random() < 0.6:
                dt['steps'].insert(rng.randint(0, len(dt['steps'])), {'i': b + 1, 'form': 'gccollect', 'pts': [], 'ps2': False, 'sep': 'blank'})
            dt['steps'][0]['sep'] = 'none'
            gen.fix_chunk_starts(dt['steps'])
    world['extra_files'] = {'simsibling.py': 'VALUE = 7\n'}
    if rng.random() < 0.08:
        # one of the files under test is named like a module of the standard library (the
        # documented limitation: the module that is found first wins, every time); other doctests
        # use the real one
        pid = 'qxtf0d0s0a'
        world['modules'].append({'name': 'colorsys', 'relpath': 'colorsys.py', 'items': [
            {'kind': 'func', 'name': 'f0', 'doc': {'layout': 'google', 'tabs': False, 'doctests': [
                {'tag': 'Example', 'steps': [{'i': 0, 'form': 'emit', 'pts': [pid], 'ps2': False, 'sep': 'none'}]}]}}]})
        for dtid, dt, mod in W.iter_doctests(world):
            if mod['name'] != 'colorsys' and rng.random() < 0.7:
                b = max(st['i'] for st in dt['steps']) + 60
                dt['steps'].insert(rng.randint(0, len(dt['steps'])),
                                   {'i': b, 'form': 'usestd', 'pts': ['qxt%ds%da' % (n, b)], 'ps2': False, 'sep': 'blank'})
                n += 1
                dt['steps'][0]['sep'] = 'none'
                gen.fix_chunk_starts(dt['steps'])
    ids = gen.doctest_ids(world)
    if len(ids) > 8:
        ids = ids[:7] + ids[-1:]
    mods = [m['relpath'] for m in world['modules']]
    ops = []
    n_ops = rng.randint(2, 10)
    mode = rng.choice(['native', 'native', 'pytest'])
    for _ in range(n_ops):
        r = rng.random()
        if r < 0.75:
            ops.append({'op': 'run_obj', 'dt': rng.choice(ids), 'verbose': rng.choice([0, 0, 1, 2, 3]),
                        'on_error': rng.choice(['return', 'return', 'raise']), 'mode': mode,
                        'fresh': rng.random() < 0.15})
        elif r < 0.9:
            ops.append({'op': 'runner', 'target': rng.choice(mods), 'command': 'all', 'verbose': rng.choice([0, 1, 3])})
        else:
            d = rng.choice(ids)
            ops.append({'op': 'runner', 'target': [m['relpath'] for m in world['modules'] if d.startswith(m['name'] + '::')][0],
                        'command': d.split('::')[1], 'verbose': rng.choice([0, 3])})
    if flavour == 'global_exec':
        for op in ops:
            op['config'] = {'global_exec': 'SIMREG = []'}
    if flavour == 'finaliser':
        # (a run that ends by a propagating exception keeps its namespace: not what is looked at here)
        for op in ops:
            if op['op'] == 'run_obj':
                op['on_error'] = 'return'
                op['mode'] = 'native'
        ops.insert(rng.randint(0, len(ops)), {'op': 'runner', 'target': rng.choice(mods), 'command': 'all', 'verbose': rng.choice([0, 1, 3])})
    if rng.random() < 0.2:
        # the environment changes half way (what REQUIRES sees is decided when a statement is reached)
        ops.insert(rng.randint(1, len(ops)), {'op': 'setenv', 'environ': rng.choice([{}, {'SIM_A': '2'}]),
                                              'argv': rng.choice([['xdsim'], ['xdsim', '--sim-flag']])})
    if flavour == 'plain' and rng.random() < 0.25:
        # the command line front end, once with default options and once without
        m0 = rng.choice(mods)
        a = {'op': 'cli', 'argv': ['PATH:' + m0, 'all', '--verbose=%d' % rng.choice([0, 1, 3]),
                                   '--options=' + rng.choice(['+SKIP', '-ELLIPSIS', '+IGNORE_WANT'])]}
        b = {'op': 'cli', 'argv': ['PATH:' + rng.choice(mods), 'all', '--verbose=%d' % rng.choice([0, 1, 3])]}
        ops.insert(rng.randint(0, len(ops)), a)
        ops.append(b)
    ops.append({'op': 'probe'})
    plan = []
    execs = common.predicted_execs(world, ops)
    used = set()
    if flavour == 'async':
        # some awaits take (virtually) long: whatever else is still pending on the loop gets its turn
        for dtid, k, opidx in execs:
            if rng.random() < 0.4:
                aw = [p for p in common.points_of(world, dtid) if p['form'] in ('await', 'awaitprint') or (p['form'] == 'bgtask' and p['j'] == 2)]
                if aw and (dtid, k) not in used:
                    used.add((dtid, k))
                    plan.append({'dt': dtid, 'k': k, 'pid': rng.choice(aw)['pid'], 'kind': 'sleep', 'delay': rng.choice([7200, 86400])})
    n_faults = rng.choice([0, 1, 1, 2, 3])
    for _ in range(n_faults):
        dtid, k, opidx = rng.choice(execs)
        pts = common.points_of(world, dtid)
        if not pts or (dtid, k) in used:
            continue
        used.add((dtid, k))
        p = rng.choice(pts)
        kind = rng.choice(FAULTS if flavour != 'finaliser' else ['raise', 'wrong', 'mute'])
        f = {'dt': dtid, 'k': k, 'pid': p['pid'], 'kind': kind}
        if kind == 'raise':
            f['exc'] = rng.choice(['ValueError', 'KeyError', 'SimError'])
            f['msg'] = 'fault ' + p['pid']
        elif kind == 'interrupt':
            f['exc'] = rng.choice(['KeyboardInterrupt', 'SystemExit', 'SimBaseExc', 'Failed'])
        elif kind == 'early_exit':
            f['exc'] = rng.choice(['ExitTestException', 'Skipped'])
        elif kind == 'warn_filters':
            f['how'] = rng.choice(['simplefilter', 'insert', 'reset'])
        elif kind == 'swap_stdout':
            f['how'] = rng.choice(['open', 'closed'])
            if rng.random() < 0.6:
                # in the last statement of the doctest: nothing of this doctest runs afterwards
                f['pid'] = pts[-1]['pid']
        plan.append(f)
    if len(world['modules']) > 1 and rng.random() < 0.2:
        # one module of the package cannot be imported (the same way at every attempt):
        # its doctests fail before they start, the others must not notice
        plan.append({'import': world['modules'][0]['name'], 'kind': 'raise',
                     'exc': rng.choice(['ImportError', 'ValueError', 'RuntimeError'])})
    if rng.random() < 0.15:
        # one doctest turns warnings into errors, a later one calls code that warns
        if len(execs) >= 2:
            i = rng.randrange(len(execs) - 1)
            j = rng.randrange(i + 1, len(execs))
            for (dtid, k, opidx), kind in ((execs[i], 'warn_filters'), (execs[j], 'warn')):
                pts = common.points_of(world, dtid)
                if pts and (dtid, k) not in used:
                    used.add((dtid, k))
                    f = {'dt': dtid, 'k': k, 'pid': rng.choice(pts)['pid'], 'kind': kind}
                    if kind == 'warn_filters':
                        f['how'] = 'simplefilter'
                    plan.append(f)
    if rng.random() < 0.2:
        # the same code warns, at the same place with the same text, in two executions: each
        # execution records its warning (what Python remembers about locations that already
        # warned is not allowed to carry over)
        twice = [(d, k, o) for d, k, o in execs if k == 1 and (d, 0) not in used and (d, 1) not in used]
        if twice:
            dtid, k, opidx = rng.choice(twice)
            pts = common.points_of(world, dtid)
            if pts:
                pid = rng.choice(pts)['pid']
                used.add((dtid, 0))
                used.add((dtid, 1))
                plan.append({'dt': dtid, 'k': 0, 'pid': pid, 'kind': 'warn'})
                plan.append({'dt': dtid, 'k': 1, 'pid': pid, 'kind': 'warn'})
    # the E14 shape: the first output of a later execution of the same object is muted
    if rng.random() < 0.35:
        cand = [(d, k, o) for d, k, o in execs if k >= 1 and (d, k) not in used]
        if cand:
            dtid, k, opidx = rng.choice(cand)
            says = [p for p in common.points_of(world, dtid) if p['form'] == 'say']
            if says:
                plan.append({'dt': dtid, 'k': k, 'pid': says[0]['pid'], 'kind': 'mute'})
    env = {'listing_seed': rng.randint(0, 99), 'environ': {'SIM_A': '1'}, 'argv': ['xdsim', '--sim-flag']}
    if rng.random() < 0.2:
        env['pkgroot_on_path'] = rng.choice([0, 1])
    return {'profile': ID, 'world': world, 'ops': ops, 'plan': plan, 'render': True,
            'recollect_after_propagation': True, 'env': env}


N_SWEEPS_THOROUGH = 60
SWEEP_RULE = ('for up to three doctests of one sampled world: *every ordered pair* (a, b), a == b included (the same object again), '
              'x what happens in a (nothing, exception, KeyboardInterrupt, sys.stdout replaced by a stream that is then closed, '
              'warnings turned into errors, early exit) x on_error of a; b and the closing probe are compared with fresh-process runs')


def sweep(rng, h):
    import copy
    base = generate(rng, 'thorough')
    world = base['world']
    ids = gen.doctest_ids(world)
    rng.shuffle(ids)
    ids = ids[:3]
    mode = rng.choice(['native', 'native', 'pytest'])
    verbose = rng.choice([0, 2, 3])
    kinds = [None, {'kind': 'raise', 'exc': 'ValueError', 'msg': 'fault'}, {'kind': 'interrupt', 'exc': 'KeyboardInterrupt'},
             {'kind': 'swap_stdout', 'how': 'closed'}, {'kind': 'warn_filters', 'how': 'simplefilter'},
             {'kind': 'early_exit', 'exc': 'ExitTestException'}]
    imports = [f for f in base['plan'] if 'import' in f]
    out = []
    for a in ids:
        pts = common.points_of(world, a)
        for b in ids:
            for fk in kinds:
                if fk is not None and not pts:
                    continue
                for oe in ('return', 'raise'):
                    v = copy.deepcopy(base)
                    v['ops'] = [{'op': 'run_obj', 'dt': a, 'verbose': verbose, 'on_error': oe, 'mode': mode},
                                {'op': 'run_obj', 'dt': b, 'verbose': verbose, 'on_error': 'return', 'mode': mode},
                                {'op': 'probe'}]
                    if base['ops'][0].get('config'):
                        for o_ in v['ops'][:2]:
                            o_['config'] = dict(base['ops'][0]['config'])
                    v['plan'] = list(imports)
                    if fk is not None:
                        v['plan'].append(dict(fk, dt=a, k=0, pid=pts[-1]['pid']))
                    out.append(v)
    return out


def observation(e):
    v, name, gw = expect.classify(e)
    return {
        'verdict': v, 'exc': name,
        'stdout': [t for t in (e.get('logged_stdout') or [])],
        'hits': [list(h) for h in e['hits']],
        'names': [list(x[2:]) for x in e.get('names', [])],
        'modglobals': [list(x[2:]) for x in e.get('modglobals', [])],
        'bindings': e.get('bindings'),
        'render': (e.get('render') or {}).get('False'),
        'warned': e.get('n_warned'),
    }


def _iso_run(scn, root):
    rec = harness.execute(scn, root)
    execs = [e for e in rec['execs'] if not e['dtid'].startswith('<')]
    if not execs:
        return None
    return observation(execs[0])


class IsoServer:
    """A child forked from the *pristine* process image (before the history
    runs).  It runs each isolated scenario in a fork of itself, so what the
    history did to this process cannot reach the reference runs."""

    def __init__(self, root):
        self.root = root[:-3] + 'i' + root[-2:]
        q_r, q_w = os.pipe()
        a_r, a_w = os.pipe()
        self.pid = os.fork()
        if self.pid == 0:
            try:
                os.close(q_w)
                os.close(a_r)
                fin = os.fdopen(q_r, 'r')
                for line in fin:
                    scn = json.loads(line)
                    shutil.rmtree(self.root, ignore_errors=True)
                    os.makedirs(self.root, exist_ok=True)
                    tag, val = engine.fork_call(_iso_run, (scn, self.root))
                    data = (json.dumps([tag, val]) + '\n').encode()
                    off = 0
                    while off < len(data):
                        off += os.write(a_w, data[off:off + 65536])
                shutil.rmtree(self.root, ignore_errors=True)
            finally:
                os._exit(0)
        os.close(q_r)
        os.close(a_w)
        self.q = q_w
        self.a = os.fdopen(a_r, 'r')

    def ask(self, scn):
        os.write(self.q, (json.dumps(scn) + '\n').encode())
        line = self.a.readline()
        if not line:
            raise RuntimeError('isolated-run server died')
        tag, val = json.loads(line)
        if tag != 'ok':
            raise RuntimeError('isolated run failed: %s %s' % (tag, val))
        return val

    def close(self):
        try:
            os.close(self.q)
        except OSError:
            pass
        try:
            os.waitpid(self.pid, 0)
        except ChildProcessError:
            pass
        try:
            self.a.close()
        except Exception:
            pass


def prepare(scn, root):
    return IsoServer(root)


def cleanup(ctx):
    ctx.close()


def isolated(scn, e, server):
    iso = {'profile': ID, 'world': scn['world'], 'env': scn.get('env', {}), 'render': True, 'ops': [], 'plan': []}
    now = expect.env_at(scn, e['op'])
    if now != scn.get('env', {}):
        # the same text (rendered for the initial environment), run in the environment now in force
        iso['ops'].append({'op': 'setenv', 'environ': now.get('environ', {}), 'argv': now.get('argv', ['xdsim'])})
    op = scn['ops'][e['op']]
    cfg = dict(op.get('config') or {})
    if op['op'] == 'cli':
        # the same default options, given to the doctest directly
        for a in op['argv']:
            if a.startswith('--options='):
                drs = {}
                for part in a[len('--options='):].split(','):
                    part = part.strip()
                    if part:
                        drs[part.lstrip('+-').upper()] = not part.startswith('-')
                cfg['default_runtime_state'] = drs
    iso['ops'].append({'op': 'run_obj', 'dt': e['dtid'], 'verbose': e.get('eff_verbose') or 0,
                       'on_error': e.get('eff_on_error') or 'return', 'mode': e.get('mode') or 'native',
                       'config': cfg})
    for f in scn.get('plan', []):
        if 'import' in f or 'clock_jump' in f:
            iso['plan'].append(copy.deepcopy(f))
        elif f.get('dt') == e['dtid'] and f.get('k') == e['k']:
            g = copy.deepcopy(f)
            g['k'] = 0
            iso['plan'].append(g)
    return server.ask(iso)


RULE_OF = {'verdict': 'C11.R1', 'exc': 'C11.R1', 'stdout': 'C11.R2', 'hits': 'C11.R1', 'names': 'C11.R3',
           'bindings': 'C11.R3', 'modglobals': 'C11.R4', 'render': 'C11.R1', 'warned': 'C11.R1'}


def check(rec):
    scn = rec['scn']
    out = []
    server = rec['ctx']
    history = []
    for e in rec['execs']:
        if e['dtid'].startswith('<'):
            continue
        obs = observation(e)
        iso = isolated(scn, e, server)
        e['iso_compared'] = iso is not None
        if iso is None:
            continue
        for key in ('verdict', 'exc', 'stdout', 'hits', 'names', 'modglobals', 'bindings', 'render', 'warned'):
            a, b = obs[key], iso.get(key)
            if key in ('bindings', 'warned') and (a is None or b is None):
                continue
            if a != b:
                out.append(common.viol(RULE_OF[key], '%s after history [%s]: %s is %s, alone in a fresh process it is %s' % (
                    common.exec_label(e), ' '.join(history[-6:]), key, _short(a), _short(b)),
                    dtid=e['dtid'], k=e['k'], key=key))
                break
        history.append('%s#%d' % (e['dtid'].split('::')[1], e['k']))
    # R5: bounded recovery -- the closing probe behaves as in a fresh process
    for o in rec['ops']:
        if scn['ops'][o['op']]['op'] == 'probe':
            val = o.get('value') or {}
            if o['how'] != 'returned' or val.get('verdict') != 'passed' or val.get('logged') != ['', '42\n', 'probe-ok\n']:
                out.append(common.viol('C11.R5', 'probe doctest after the history: %s %s %s' % (o['how'], o.get('exc'), val), op=o['op']))
    return out


def _short(x):
    s = repr(x)
    return s if len(s) < 260 else s[:130] + ' ... ' + s[-120:]


def stats(rec, viols):
    s = {'fired': common.fired_kinds(rec), 'outcomes': {}, 'probes': {}, 'classes': []}
    seen_obj = {}
    for e in rec['execs']:
        h = common.how_ended(e)
        s['outcomes'][h] = s['outcomes'].get(h, 0) + 1
        if e['dtid'].startswith('<'):
            continue
        s['probes']['executions_compared_with_isolated_run'] = s['probes'].get('executions_compared_with_isolated_run', 0) + 1
        oid = id(e['obj'])
        if oid in seen_obj:
            s['probes']['same_object_run_again'] = s['probes'].get('same_object_run_again', 0) + 1
            if any(f[0] == 'mute' for f in e['fired']):
                s['probes']['same_object_rerun_with_mute_fault'] = s['probes'].get('same_object_rerun_with_mute_fault', 0) + 1
        seen_obj[oid] = True
        if e.get('names'):
            s['probes']['names_probe_hit'] = s['probes'].get('names_probe_hit', 0) + 1
        if e.get('modglobals'):
            s['probes']['modglobal_probe_hit'] = s['probes'].get('modglobal_probe_hit', 0) + 1
        s['classes'].append('%s|k%d|%s' % (h, min(e['k'], 3), e.get('mode')))
    for k_, v_ in rec.get('out_of_scope', {}).items():
        s['probes']['out_of_scope_' + k_] = v_
    planned = rec['scn'].get('plan', [])
    s['faulting'] = bool(planned)
    s['nontrivial'] = common.anything_executed(rec) and (not planned or bool(rec['fired']))
    return s
