"""C12 -- process-global state is restored after every outcome.

Fault enumeration over outcome kinds x position x on_error x mode, with
crash-point faults (sys.settrace) and stream faults.  The oracle compares a
snapshot taken when DocTest.run / import_module_from_path is entered with one
taken when it is left, however it is left, exactly as the property words it:
stdout/stderr identity, sys.path entries (multiset), warnings.filters content,
no loop left running.
"""
import common
import gen
import harness
import world as W

ID = 'C12'
LEVEL = 'fault_enumeration'
N_QUICK = 6000
N_THOROUGH = 120000

COOP_KINDS = ['raise', 'raise', 'wrong', 'interrupt', 'interrupt', 'early_exit', 'swap_stdout', 'close_stdout',
              'warn_filters', 'warn', 'bad_repr', 'mute']
TRACE_EXCS = ['KeyboardInterrupt', 'KeyboardInterrupt', 'SystemExit', 'MemoryError', 'RecursionError']


def generate(rng, tier):
    cfg = gen.default_cfg(p_async=0.0)
    flavour = rng.choice(['plain', 'plain', 'async', 'imports', 'mixed'])
    if flavour in ('async', 'mixed'):
        cfg['async_forms'] = list(gen.ASYNC_FORMS)
        cfg['p_async'] = 0.35
    cfg['n_modules'] = (1, 2)
    cfg['n_funcs'] = (1, 2)
    cfg['max_steps'] = rng.choice([3, 5, 7])
    cfg['forms'] = list(gen.SIMPLE_FORMS) + ['withswap', 'writeout']
    world = gen.gen_world(rng, cfg)
    ids = gen.doctest_ids(world)
    mods = [m['relpath'] for m in world['modules']]
    ops = []
    n_ops = rng.randint(1, 4)
    mode = rng.choice(['native', 'native', 'pytest'])
    for _ in range(n_ops):
        r = rng.random()
        if r < 0.55:
            ops.append({'op': 'run_obj', 'dt': rng.choice(ids), 'verbose': rng.choice([0, 0, 1, 2, 3]),
                        'on_error': rng.choice(['return', 'raise']), 'mode': mode,
                        'fresh': rng.random() < 0.3})
        elif r < 0.75:
            ops.append({'op': 'runner', 'target': rng.choice(mods), 'command': 'all',
                        'verbose': rng.choice([0, 1, 2, 3])})
        elif r < 0.86:
            ops.append({'op': 'import_by_path', 'module': rng.choice(mods), 'index': rng.choice([-1, 0])})
        elif r < 0.9:
            ops.append({'op': 'import_zip', 'inner': rng.choice(['folder/zmod.py', 'folder/zmod.py', 'ztop.py']),
                        'sep': rng.choice(['/', ':']), 'fail': rng.random() < 0.4,
                        'exc': rng.choice(['ValueError', 'ImportError', 'KeyboardInterrupt'])})
        else:
            ops.append({'op': 'cli', 'argv': ['PATH:' + rng.choice(mods), 'all', '--verbose=%d' % rng.choice([0, 1, 3])]})
    if rng.random() < 0.08:
        for op in ops:
            if op['op'] == 'run_obj':
                op['in_loop'] = True
                break
    if rng.random() < 0.2:
        # the caller redirects sys.stdout between two operations (then the same objects run again)
        pos = rng.randint(1, len(ops))
        again = [dict(o) for o in ops[:pos] if o['op'] == 'run_obj'][:2]
        for o in again:
            o['fresh'] = False
        ops[pos:pos] = [{'op': 'redirect'}] + again
    colored = rng.random() < 0.25
    if colored:
        for op in ops:
            if op['op'] in ('run_obj', 'runner'):
                op.setdefault('config', {})['colored'] = True
    ops.append({'op': 'probe'})
    plan = []
    execs = common.predicted_execs(world, ops)
    r = rng.random()
    n_faults = 0 if r < 0.2 else 1 if r < 0.8 else 2
    if flavour == 'imports' or rng.random() < 0.15:
        m = rng.choice(world['modules'])
        kind = rng.choice(['raise', 'raise', 'syspath', 'syspath', 'print', 'warn_filters', 'warn', 'swap_stdout'])
        f = {'import': m['name'], 'kind': kind}
        if kind == 'warn_filters':
            f['how'] = rng.choice(['ignore', 'error'])
        if kind == 'raise':
            f['exc'] = rng.choice(['ImportError', 'ValueError', 'KeyboardInterrupt', 'SystemExit', 'SimBaseExc', 'RuntimeError'])
        if kind == 'syspath':
            f['how'] = rng.choice(['insert0', 'append', 'remove_tmp', 'dup_tmp', 'rebind', 'rebind'])
            if rng.random() < 0.4:
                f['then_raise'] = rng.choice(['ImportError', 'KeyboardInterrupt', 'ValueError'])
        plan.append(f)
    used = set()
    for _ in range(n_faults):
        if not execs:
            break
        dtid, k, opidx = rng.choice(execs)
        if (dtid, k) in used:
            continue
        used.add((dtid, k))
        pts = common.points_of(world, dtid)
        r2 = rng.random()
        op = ops[opidx]
        verbose = op.get('verbose', 0) if op['op'] != 'cli' else 3
        if r2 < 0.35 or not pts:
            plan.append({'dt': dtid, 'k': k, 'trace_frac': rng.random(), 'exc': rng.choice(TRACE_EXCS),
                         'trace_site': rng.choice(['d', 'd', 'p', 'x', 't', 'm', 'any'])})
        elif r2 < 0.45 and verbose >= 2:
            if rng.random() < 0.3:
                plan.append({'dt': dtid, 'k': k, 'stream_flush': 0})
            else:
                plan.append({'dt': dtid, 'k': k, 'stream_write': rng.randint(0, 3),
                             'exc': rng.choice(['BlockingIOError', 'UnicodeEncodeError', 'OSError'])})
        else:
            p = rng.choice(pts)
            kind = rng.choice(COOP_KINDS)
            f = {'dt': dtid, 'k': k, 'pid': p['pid'], 'kind': kind}
            if kind == 'raise':
                f['exc'] = rng.choice(['ValueError', 'KeyError', 'ZeroDivisionError', 'AssertionError', 'SimError',
                                       'MemoryError', 'RecursionError'])
                f['msg'] = 'fault ' + p['pid']
                f['depth'] = rng.choice([0, 0, 2])
            elif kind == 'interrupt':
                f['exc'] = rng.choice(['KeyboardInterrupt', 'SystemExit', 'SimBaseExc', 'Failed'])
            elif kind == 'early_exit':
                f['exc'] = rng.choice(['ExitTestException', 'Skipped'])
            elif kind == 'warn_filters':
                f['how'] = rng.choice(['simplefilter', 'insert', 'reset'])
            plan.append(f)
    env = {'listing_seed': rng.randint(0, 99)}
    if rng.random() < 0.3:
        env['pkgroot_on_path'] = rng.choice([0, 1, 2])
    if rng.random() < 0.08:
        # a stale development-install link on sys.path (its target does not hold the package), and
        # doctests that ask whether that package is there
        env['pkgroot_on_path'] = rng.choice([0, 1, 2])
        world.setdefault('extra_files', {})['sim_egg.egg-link'] = '/nonexistent/sim_egg_target\n.\n'
        for dtid, dt, mod in W.iter_doctests(world):
            if rng.random() < 0.7:
                base = max(x['i'] for x in dt['steps']) + 1
                dt['steps'].append({'i': base, 'form': 'directive', 'pts': [], 'ps2': False, 'sep': 'none',
                                    'dirs': [['+', 'REQUIRES', 'module:sim_egg']]})
                dt['steps'].append({'i': base + 1, 'form': 'comment', 'pts': [], 'ps2': False, 'sep': 'none'})
    if rng.random() < 0.1:
        env['warnings_error'] = True        # the host runs with -W error
    if colored and rng.random() < 0.6:
        env['no_pygments'] = True
    if rng.random() < 0.1:
        env['bad_finder'] = True
    if rng.random() < 0.1:
        # a terminal that cannot show everything (LANG=C), and source text that is not ascii
        env['ascii_terminal'] = True
        for dtid, dt, mod in W.iter_doctests(world):
            for st in dt['steps']:
                if st['form'] == 'comment':
                    st['nonascii'] = True
            if rng.random() < 0.7:
                base = max(x['i'] for x in dt['steps']) + 1
                dt['steps'].insert(rng.randint(0, len(dt['steps'])),
                                   {'i': base, 'form': 'comment', 'pts': [], 'ps2': False, 'sep': 'none', 'nonascii': True})
                dt['steps'][0]['sep'] = 'none'
                gen.fix_chunk_starts(dt['steps'])
    if env.get('pkgroot_on_path') is not None:
        # (a module body that deletes xdoctest's temporary entry *while an equal entry of the
        # user exists* defeats the documented recovery heuristic of PythonPathContext, which
        # then removes the user's entry: recorded in DESIGN.md as out of scope, not generated)
        for f in plan:
            if f.get('kind') == 'syspath' and f.get('how') == 'remove_tmp':
                f['how'] = 'append'
    for f in plan:
        if f.get('kind') == 'swap_stdout':
            f['how'] = rng.choice(['open', 'closed', 'writeonly'])
    return {'profile': ID, 'world': world, 'ops': ops, 'plan': plan, 'env': env}


N_SWEEPS_THOROUGH = 400
SWEEP_RULE = ('for one doctest of a sampled world (one run_obj at a sampled verbosity / on_error / mode): KeyboardInterrupt and one '
              'other exception injected at *every* in-scope line event of that run (doctest, called code, xdoctest incl. the tee '
              'write), one event per variant')


def sweep(rng, h):
    import copy
    cfg = gen.default_cfg()
    if rng.random() < 0.4:
        cfg['async_forms'] = list(gen.ASYNC_FORMS)
        cfg['p_async'] = 0.35
    cfg['n_modules'] = (1, 1)
    cfg['n_funcs'] = (1, 2)
    cfg['max_steps'] = rng.choice([3, 5, 7])
    world = gen.gen_world(rng, cfg)
    dt = rng.choice(gen.doctest_ids(world))
    op = {'op': 'run_obj', 'dt': dt, 'verbose': rng.choice([0, 1, 2, 3]), 'on_error': rng.choice(['return', 'raise']),
          'mode': rng.choice(['native', 'native', 'pytest'])}
    base = {'profile': ID, 'world': world, 'ops': [op, {'op': 'probe'}], 'plan': [], 'env': {'listing_seed': rng.randint(0, 99)}}
    sites = ''
    for d, k, c in h['count_events'](base):
        if d == dt and k == 0:
            sites = c
    excs = ['KeyboardInterrupt', rng.choice(['SystemExit', 'MemoryError', 'RecursionError'])]
    step = 1 if len(sites) <= 160 else 2
    out = []
    for ordinal in range(1, len(sites) + 1, step):
        for exc in excs:
            v = copy.deepcopy(base)
            v['plan'] = [{'dt': dt, 'k': 0, 'trace': ordinal, 'trace_of': len(sites), 'exc': exc}]
            out.append(v)
    return out or [base]


def check(rec):
    out = []
    for e in rec['execs']:
        if e.get('snap1') is None:
            continue
        added = [x[2] for x in e.get('import_log', []) if x[1] == 'added']
        removed = [x[2] for x in e.get('import_log', []) if x[1] == 'removed']
        edited = any(x[1] == 'removed_tmp' for x in e.get('import_log', []))
        for r, detail in harness.compare_snaps(e['snap0'], e['snap1'], (added, removed, False, edited)):
            out.append(common.viol('C12.' + r, '%s after DocTest.run %s ended by %s' % (
                detail, common.exec_label(e), common.how_ended(e)),
                dtid=e['dtid'], k=e['k'], how=common.how_ended(e)))
    # the front ends as a whole: after doctest_module / main() the process is as it was found
    for o in rec['ops']:
        if o['kind'] not in ('runner', 'cli') or o.get('snap1') is None:
            continue
        log = o.get('import_log', [])
        added = [x[2] for x in log if x[1] == 'added']
        removed = [x[2] for x in log if x[1] == 'removed']
        edited = any(x[1] == 'removed_tmp' for x in log)
        body_filter = any(x[1] == 'warnfilter' for x in log)
        for r, detail in harness.compare_snaps(o['snap0'], o['snap1'], (added, removed, False, edited)):
            out.append(common.viol('C12.' + r, '%s after op%d %s %s %s' % (detail, o['op'], o['kind'], o['how'], o['exc'] or ''),
                                   op=o['op'], how=o['how']))
    for im in rec['imports']:
        if im.get('snap1') is None:
            continue
        added = [x[2] for x in im.get('import_log', []) if x[1] == 'added']
        removed = [x[2] for x in im.get('import_log', []) if x[1] == 'removed']
        body_filter = any(x[1] == 'warnfilter' for x in im.get('import_log', []))
        edited = any(x[1] == 'removed_tmp' for x in im.get('import_log', []))
        body_swap = any(x[1] == 'swapstdout' for x in im.get('import_log', []))
        for r, detail in harness.compare_snaps(im['snap0'], im['snap1'], (added, removed, body_filter, edited, body_swap)):
            out.append(common.viol('C12.R5', '%s [%s] after import_module_from_path(%s) %s %s' % (
                detail, r, im['modpath'], im['how'], im['exc'] or ''),
                modpath=im['modpath'], how=im['how'], exc=im['exc'], sub=r))
    return out


def stats(rec, viols):
    s = {'fired': common.fired_kinds(rec), 'outcomes': {}, 'probes': {}, 'classes': []}
    for e in rec['execs']:
        h = common.how_ended(e)
        s['outcomes'][h] = s['outcomes'].get(h, 0) + 1
        tee = (e.get('eff_verbose') or 0) >= 2
        cls = '%s|%s|%s|%s' % (h, e.get('eff_on_error'), 'tee' if tee else 'quiet', e.get('mode'))
        s['classes'].append(cls)
        if e.get('trace') and e['trace'].get('fired_in'):
            site = e['trace']['fired_in']
            s['probes']['trace_in_' + site.split(':')[0]] = s['probes'].get('trace_in_' + site.split(':')[0], 0) + 1
            if 'TeeStringIO' in site or site.endswith(':write'):
                s['probes']['trace_in_tee_write'] = s['probes'].get('trace_in_tee_write', 0) + 1
        if e.get('swapped_stdout'):
            s['probes']['doctest_swapped_stdout'] = s['probes'].get('doctest_swapped_stdout', 0) + 1
    for im in rec['imports']:
        key = 'import:%s:%s' % (im['how'], im['exc'] or '')
        s['outcomes'][key] = s['outcomes'].get(key, 0) + 1
        if any(x[1] in ('added', 'removed') for x in im.get('import_log', [])):
            s['probes']['import_body_touched_syspath'] = s['probes'].get('import_body_touched_syspath', 0) + 1
    planned_faults = [f for f in rec['scn'].get('plan', [])]
    s['faulting'] = bool(planned_faults)
    s['nontrivial'] = common.anything_executed(rec) and (not planned_faults or bool(rec['fired']))
    s['n_loops'] = len(harness.SimLoop.instances)
    if s['n_loops']:
        s['probes']['loops_created'] = s['n_loops']
        unclosed = [l for l in harness.SimLoop.instances if not l.is_closed()]
        if unclosed:
            s['probes']['info_loops_left_open_not_running'] = len(unclosed)
    return s
