"""C09 -- every failure is recorded and rendered; one bad doctest never aborts
the run.

Fault enumeration over C09's own list of causes x position x surrounding shape
x verbosity x runner.  The failure is injected by the behaviour plan (wrong
answer, exception in the doctest / in called code / in a helper defined by an
earlier part, raising repr, import error, MemoryError / RecursionError at a
crash point, failing terminal write) or lives in the text (compile-only error,
malformed directive).
"""
import re

import common
import expect
import gen
import world as W

ID = 'C09'
LEVEL = 'fault_enumeration'
N_QUICK = 6000
N_THOROUGH = 150000
ASSUMPTIONS = [
    'BaseExceptions (KeyboardInterrupt, SystemExit) are not in C09\'s list and are not injected here (C12 handles them)',
    'a doctest that closes the tee stream itself is outside the enumerated causes and is not generated',
]

BADCOMPILE = ['return 5', 'yield 5', 'break', 'continue', 'nonlocal sim_x', 'def sim_bad(a, a): pass',
              '__debug__ = 1', 'from __future__ import nope']
KINDS = ['wrong', 'raise_direct', 'raise_called', 'raise_helper', 'raise_helper', 'badcompile', 'bad_repr', 'bad_repr',
         'import_error', 'baddirective', 'trace', 'stream', 'none', 'wantcorrupt', 'ignore_want_exc', 'zero', 'sharedpart']


def _helper_shape(rng, world, dtid_pick=None):
    """make sure some doctest has: helper definition (long or short) in an
    earlier part, then a *short* part that calls it"""
    cands = [(dtid, dt) for dtid, dt, mod in W.iter_doctests(world)]
    dtid, dt = rng.choice(cands)
    steps = dt['steps']
    pfx = None
    for st in steps:
        if st.get('pts'):
            pfx = st['pts'][0].split('s')[0]
            break
    if pfx is None:
        pfx = 'zz%d' % rng.randint(0, 99)
    base = max(st['i'] for st in steps) + 1
    pad = rng.choice([0, 1, 4, 6, 9])
    hdef = {'i': base, 'form': rng.choice(['defhelper', 'defemit']), 'pts': [], 'ps2': rng.random() < 0.5,
            'sep': rng.choice(['none', 'blank']), 'pad': pad}
    call = {'i': base + 1, 'form': 'callhelper', 'pts': ['%ss%da' % (pfx, base + 1)], 'ps2': False,
            'sep': rng.choice(['blank', 'blank', 'none', 'prose']), 'ref': base}
    if hdef['form'] == 'defemit':
        call['form'] = 'callhelper_emit'
    pos = rng.randint(0, len(steps))
    steps[pos:pos] = [hdef]
    pos2 = rng.randint(pos + 1, len(steps))
    # refs to other helpers must stay behind their definitions: only insert
    steps[pos2:pos2] = [call]
    # window bookkeeping of later wants is recomputed by the renderer
    return dtid, call['pts'][0]


def generate(rng, tier):
    cfg = gen.default_cfg(p_want=rng.choice([0.3, 0.5]), p_tb=0.08, max_steps=rng.choice([3, 5, 8]),
                          p_helper=rng.choice([0.1, 0.3]))
    cfg['n_modules'] = (1, 2)
    cfg['n_funcs'] = (1, 3)
    cfg['forms'] = list(gen.SIMPLE_FORMS) + ['emitop', 'emitop', 'blankprompt', 'blankprompt', 'withswap', 'reprexpr', 'reprexpr']
    if rng.random() < 0.2:
        cfg['async_forms'] = list(gen.ASYNC_FORMS)
        cfg['p_async'] = 0.3
    world = gen.gen_world(rng, cfg)
    kind = rng.choice(KINDS)
    target_pid = None
    target_dt = None
    if kind == 'raise_helper':
        target_dt, target_pid = _helper_shape(rng, world)
    zero_cmd = None
    if kind == 'zero':
        # functions without a docstring, run through the implicit examples of the native runner
        zmod = rng.choice(world['modules'])
        only = rng.random() < 0.5
        if only:
            zmod['items'] = []
        zs = gen.add_zero_funcs(rng, zmod, rng.randint(1, 3))
        target_dt, target_pid = rng.choice(zs)
        zname = target_dt.split('::')[1].split(':')[0]
        zero_cmd = rng.choice(['zero-all', 'zero-all', zname]) if only else zname
    shared_pid = None
    if kind == 'sharedpart':
        # two doctests of one file begin with a part of the same text; the later one raises in it
        by_mod = {}
        for dtid, dt, mod in W.iter_doctests(world):
            by_mod.setdefault(mod['name'], []).append((dtid, dt))
        mods2 = [m for m, lst in sorted(by_mod.items()) if len(lst) >= 2]
        if mods2:
            mname = rng.choice(mods2)
            lst = by_mod[mname]
            a = rng.randrange(len(lst) - 1)
            b = rng.randrange(a + 1, len(lst))
            shared_pid = 'qsh%ss0a' % mname.split('.')[-1]
            for dtid, dt in (lst[a], lst[b]):
                base = max(st['i'] for st in dt['steps']) + 1
                dt['steps'].insert(0, {'i': base, 'form': 'sharedcall', 'pts': [], 'spid': shared_pid, 'ps2': False,
                                       'sep': 'none', 'want': 'repr'})
                if len(dt['steps']) > 1:
                    dt['steps'][1]['sep'] = 'none'
            target_dt = lst[b][0]
        else:
            kind = 'none'
    ids = gen.doctest_ids(world)
    if kind in ('badcompile', 'baddirective'):
        cands = [(dtid, dt) for dtid, dt, mod in W.iter_doctests(world)]
        target_dt, dt = rng.choice(cands)
        steps = dt['steps']
        base = max(st['i'] for st in steps) + 1
        pos = rng.randint(0, len(steps))
        if kind == 'badcompile':
            st = {'i': base, 'form': 'badcompile', 'pts': [], 'text': rng.choice(BADCOMPILE), 'ps2': False,
                  'sep': 'blank'}
            steps[pos:pos] = [st]
            if pos + 1 < len(steps):
                pass
        else:
            if rng.random() < 0.5 or not steps:
                st = {'i': base, 'form': 'directive', 'pts': [], 'ps2': False, 'sep': rng.choice(['none', 'blank']),
                      'dirs': [['+', 'REQUIRES', rng.choice(['badflag:X', 'notaplatform', 'env:A:B'])]]}
                steps[pos:pos] = [st]
            else:
                tgt = rng.choice(steps)
                if tgt['form'] not in W.NOCODE_FORMS and tgt['form'] not in ('tq', 'tqprint', 'bgtask') and not tgt.get('want'):
                    tgt['inline'] = [['+', 'REQUIRES', rng.choice(['badflag:X', 'notaplatform'])]]
                else:
                    st = {'i': base, 'form': 'directive', 'pts': [], 'ps2': False, 'sep': 'none',
                          'dirs': [['+', 'REQUIRES', 'badflag:X']]}
                    steps[pos:pos] = [st]
    iw_pid = None
    if kind in ('wantcorrupt', 'ignore_want_exc'):
        cands = [(dtid, dt, st) for dtid, dt, mod in W.iter_doctests(world) for st in dt['steps']
                 if st.get('want') in ('acc', 'last', 'repr') and st.get('pts')]
        if cands:
            target_dt, dt, st = rng.choice(cands)
            if kind == 'wantcorrupt':
                kinds = ['replace', 'append', 'prepend', 'droplast']
                if W.form_out(st) or W.value_repr(st):
                    # (where the statement itself writes nothing, whether an empty-line
                    # marker equals "no output" is a matter of normalisation: not generated)
                    kinds += ['blankline', 'blankline']
                st['want_corrupt'] = rng.choice(kinds)
            else:
                # a want that is switched off must not switch off the exception with it
                iw_pid = st['pts'][0]
                if rng.random() < 0.5 and st['form'] not in ('tq', 'tqprint', 'bgtask'):
                    st['inline'] = [['+', 'IGNORE_WANT', None]]
                    st['inline_at'] = rng.choice(['first', 'last'])
                else:
                    base = max(x['i'] for x in dt['steps']) + 1
                    pos = rng.randint(0, dt['steps'].index(st))
                    dt['steps'].insert(pos, {'i': base, 'form': 'directive', 'pts': [], 'ps2': False,
                                             'sep': 'none', 'dirs': [['+', 'IGNORE_WANT', None]]})
                    dt['steps'][0]['sep'] = 'none'
        else:
            kind = 'none'
    rerun = rng.random() < 0.25 and kind not in ('zero', 'sharedpart')
    if rerun and rng.random() < 0.6:
        # parts that are switched off, in a doctest that is run more than once
        tgt = target_dt or rng.choice(ids)
        for _dtid, _dt, _mod in W.iter_doctests(world):
            if _dtid == tgt and not any(x.get('inline') for x in _dt['steps']):
                target_dt = tgt
                how = rng.choice(['tail', 'region', 'inline', 'head'])
                st0 = rng.getstate()
                while gen.add_skips(rng, _dt['steps']) in ('all', 'all_requires'):
                    pass
    for _dtid, _dt, _mod in W.iter_doctests(world):
        gen.fix_chunk_starts(_dt['steps'])
    # ---- operations
    ops = []
    shape = rng.choice(['obj', 'obj', 'runner', 'runner', 'cli'])
    verbose = rng.choice([0, 1, 2, 3])
    if target_dt is None:
        target_dt = rng.choice(ids)
    target_mod = [m for m in world['modules'] if target_dt.startswith(m['name'] + '::')][0]
    n_runs = 1
    if kind in ('zero', 'sharedpart'):
        shape = rng.choice(['runner', 'runner', 'cli'])
    if rerun:
        shape = 'obj'
        n_runs = rng.randint(2, 3)
    if shape == 'obj':
        mode = rng.choice(['native', 'native', 'pytest'])
        ops.append({'op': 'run_obj', 'dt': target_dt, 'verbose': verbose, 'on_error': 'return', 'mode': mode})
        others = [d for d in ids if d != target_dt]
        rng.shuffle(others)
        for d in others[:rng.randint(0, 2)]:
            ops.append({'op': 'run_obj', 'dt': d, 'verbose': verbose, 'on_error': 'return'})
        for _ in range(n_runs - 1):
            # the same object again: what is recorded is about this run
            ops.append({'op': 'run_obj', 'dt': target_dt, 'verbose': rng.choice([verbose, 0]), 'on_error': 'return', 'mode': mode})
    elif shape == 'runner':
        ops.append({'op': 'runner', 'target': target_mod['relpath'], 'command': zero_cmd or 'all', 'verbose': verbose})
    else:
        ops.append({'op': 'cli', 'argv': ['PATH:' + target_mod['relpath'], zero_cmd or 'all', '--verbose=%d' % verbose]})
    if rng.random() < 0.5:
        # how the report is rendered is an option: every choice must render every failure
        rc_cfg = {'reportchoice': rng.choice(['udiff', 'cdiff', 'ndiff', 'none', 'only_first_failure']),
                  'colored': rng.random() < 0.5, 'partnos': rng.random() < 0.3, 'offset_linenos': rng.random() < 0.3}
        for op in ops:
            if op['op'] in ('run_obj', 'runner'):
                op['config'] = dict(rc_cfg)
            elif op['op'] == 'cli':
                op['argv'] += ['--report=' + rc_cfg['reportchoice']]
    ops.append({'op': 'probe'})
    # ---- plan
    plan = []
    ascii_terminal = False
    pts = common.points_of(world, target_dt)
    k = 0
    if kind == 'wrong' and pts:
        p = rng.choice(pts)
        plan.append({'dt': target_dt, 'k': k, 'pid': p['pid'], 'kind': rng.choice(['wrong', 'mute', 'extra_line'])})
    elif kind in ('raise_direct', 'raise_called') and pts:
        if kind == 'raise_called':
            called = [p for p in pts if p['form'] in ('callmod', 'callmod_expr', 'callhelper', 'callhelper_expr', 'callhelper_emit')]
            p = rng.choice(called or pts)
        else:
            p = rng.choice(pts)
        plan.append({'dt': target_dt, 'k': k, 'pid': p['pid'], 'kind': 'raise',
                     'exc': rng.choice(['ValueError', 'KeyError', 'ZeroDivisionError', 'AssertionError', 'SimError',
                                        'MemoryError', 'RecursionError', 'TypeError']),
                     'msg': rng.choice(['fault ' + p['pid'], '', 'multi\nline ' + p['pid'], 'with: colon ...']),
                     'depth': rng.choice([0, 0, 1, 3])})
    elif kind == 'raise_helper':
        plan.append({'dt': target_dt, 'k': k, 'pid': target_pid, 'kind': 'raise',
                     'exc': rng.choice(['ValueError', 'KeyError', 'SimError']), 'msg': 'fault in helper'})
    elif kind == 'sharedpart':
        plan.append({'dt': target_dt, 'k': k, 'pid': shared_pid, 'kind': 'raise',
                     'exc': rng.choice(['ValueError', 'KeyError', 'SimError']), 'msg': 'fault in shared text',
                     'depth': rng.choice([0, 0, 2])})
    elif kind == 'zero':
        if rng.random() < 0.8:
            plan.append({'dt': target_dt, 'k': k, 'pid': target_pid, 'kind': 'raise',
                         'exc': rng.choice(['ValueError', 'KeyError', 'ZeroDivisionError', 'SimError']), 'msg': 'fault in ' + target_pid,
                         'depth': rng.choice([0, 0, 2])})
    elif kind == 'ignore_want_exc' and iw_pid:
        plan.append({'dt': target_dt, 'k': k, 'pid': iw_pid, 'kind': 'raise',
                     'exc': rng.choice(['ValueError', 'KeyError', 'ZeroDivisionError', 'SimError']), 'msg': 'fault ' + iw_pid,
                     'depth': rng.choice([0, 0, 2])})
    elif kind == 'bad_repr' and pts:
        vals = [p for p in pts if p['form'] in ('expr', 'multiline', 'callmod_expr', 'callhelper_expr', 'awaitexpr', 'emitop')]
        p = rng.choice(vals or pts)
        plan.append({'dt': target_dt, 'k': k, 'pid': p['pid'], 'kind': 'bad_repr'})
    elif kind == 'import_error':
        plan.append({'import': target_mod['name'], 'kind': 'raise',
                     'exc': rng.choice(['ImportError', 'ValueError', 'RuntimeError', 'ZeroDivisionError'])})
    elif kind == 'trace':
        plan.append({'dt': target_dt, 'k': k, 'trace_frac': rng.random(), 'exc': rng.choice(['MemoryError', 'RecursionError']),
                     'trace_site': rng.choice(['d', 'p', 'x', 't', 'm', 'any'])})
    elif kind == 'stream':
        for op in ops:
            if op.get('verbose', 0) < 2 and op['op'] != 'cli':
                op['verbose'] = rng.choice([2, 3])
            if op['op'] == 'cli':
                op['argv'][-1] = '--verbose=3'
        printed = [p for p in pts if p['form'] == 'print']
        if printed and rng.random() < 0.4:
            # a terminal that cannot show everything, and an answer -- not in the source text --
            # that it cannot show: every write of it fails, not just one.  (Only an answer the
            # doctest *prints*: the failing write is then the doctest's own.  A value that is
            # compared and then shown in a report is the report's text, and a terminal that
            # cannot show the report is not something a run can survive.)
            plan.append({'dt': target_dt, 'k': k, 'pid': rng.choice(printed)['pid'], 'kind': 'nonascii'})
            ascii_terminal = True
        else:
            plan.append({'dt': target_dt, 'k': k, 'stream_write': rng.randint(0, 4),
                         'exc': rng.choice(['BlockingIOError', 'UnicodeEncodeError', 'OSError'])})
    if n_runs > 1:
        # the same behaviour in every run of the target (faults are addressed per execution)
        for f in list(plan):
            if f.get('dt') == target_dt and f.get('k') == 0 and 'trace_frac' not in f:
                for kk in range(1, n_runs):
                    if rng.random() < 0.7:
                        plan.append(dict(f, k=kk))
    env = {'listing_seed': rng.randint(0, 99)}
    if rng.random() < 0.12:
        # the host program limits how much of a traceback the standard library formats
        env['tracebacklimit'] = rng.choice([0, 1, 2])
    if ascii_terminal:
        env['ascii_terminal'] = True
    if rng.random() < 0.1:
        # code under test that leaves the process in a directory that no longer exists
        taken = set((f.get('dt'), f.get('k'), f.get('pid')) for f in plan)
        d = rng.choice(ids or [target_dt])
        cand = [p for p in common.points_of(world, d) if (d, 0, p['pid']) not in taken]
        if cand:
            plan.append({'dt': d, 'k': 0, 'pid': rng.choice(cand)['pid'], 'kind': 'rmcwd'})
    if rng.random() < 0.3:
        # code under test that also emits a warning (before it fails, or in another doctest)
        taken = set((f.get('dt'), f.get('k'), f.get('pid')) for f in plan)
        for d in ids:
            if rng.random() < 0.5:
                cand = [p for p in common.points_of(world, d) if (d, 0, p['pid']) not in taken]
                if cand:
                    plan.append({'dt': d, 'k': 0, 'pid': cand[0]['pid'], 'kind': 'warn'})
    scn = {'profile': ID, 'world': world, 'ops': ops, 'plan': plan, 'render': True, 'env': env, 'kind': kind}
    return scn


N_SWEEPS_THOROUGH = 500
SWEEP_RULE = ('for one doctest of a sampled world, at a sampled verbosity and runner: every single failure cause that a point can '
              'carry -- wrong answer, exception raised directly, exception from called code at depth 3, raising repr -- at every '
              'point, one per variant')


def sweep(rng, h):
    base = generate(rng, 'thorough')
    while base.get('kind') in ('trace', 'stream', 'zero', 'sharedpart'):
        base = generate(rng, 'thorough')
    target = None
    for op in base['ops']:
        if op['op'] == 'run_obj':
            target = op['dt']
            break
    if target is None:
        ids = gen.doctest_ids(base['world'])
        op0 = base['ops'][0]
        rel = op0.get('target') or [a[5:] for a in op0['argv'] if a.startswith('PATH:')][0]
        under = [d for d in ids if d.startswith(rel[:-3].replace('/', '.') + '::')]
        target = rng.choice(under or ids)
    base['plan'] = [f for f in base['plan'] if 'import' in f]

    def faults(p):
        fs = [{'kind': 'wrong'}, {'kind': 'raise', 'exc': 'ValueError', 'msg': 'fault ' + p['pid']},
              {'kind': 'raise', 'exc': 'KeyError', 'msg': 'multi\nline', 'depth': 3}]
        if p['form'] in W.VALUE_FORMS:
            fs.append({'kind': 'bad_repr'})
        return fs
    return [base] + common.single_fault_variants(base, target, faults)


REASON_RE = re.compile(r'^\* REASON: (\w+)', re.M)
FILELINE_RE = re.compile(r'^  File ".*?", line (\d+),', re.M)


def check(rec):
    meta = expect.build(rec)
    scn = rec['scn']
    out = []
    failed_by_op = {}
    for e in rec['execs']:
        E = e.get('E')
        lab = common.exec_label(e)
        v, name, gw = expect.classify(e)
        # R1: asked to return errors -> returns
        if e.get('eff_on_error') == 'return' and e['how'] == 'raised' and e.get('exc_is_exception'):
            where = ''
            ex = e.get('exc_obj')
            if ex is not None and ex.__traceback__ is not None:
                import traceback
                tb = traceback.extract_tb(ex.__traceback__)
                where = ' (raised in %s)' % (tb[-1].name if tb else '?')
            out.append(common.viol('C09.R1', '%s: run(on_error="return") raised %s%s' % (lab, e['exc'], where),
                                   dtid=e['dtid'], k=e['k'], exc=e['exc']))
            continue
        if E is None:
            continue
        async_fault = expect.has_async_fault(scn, e['dtid'], e['k'])
        # R2: the summary says failed
        if async_fault:
            fired = [f for f in e['fired'] if f[0].startswith('trace:')] or list(e.get('stream_fired') or [])
            spec_steps = expect.spec_index(scn['world'])[e['dtid']][0]['steps']
            awaits = any(st['form'] in W.ASYNC_FORMS for st in spec_steps)
            # (in a doctest that awaits, the fault may land in a task other than the
            # awaiting one, where asyncio legitimately parks it: only C12 is asserted there)
            # (the doctest's own code may replace the injected exception: a 'finally:' that
            # raises -- a peer raise firing after the injected one -- supersedes it)
            kinds_seq = [f[0] for f in e['fired']]
            superseded = any(k_.startswith('trace:') and 'raise' in kinds_seq[j + 1:] for j, k_ in enumerate(kinds_seq))
            # (a terminal fault is not in this per-execution list; the same thing happens when the
            # doctest has a finally / except block whose own, expected exception replaces it)
            if any(f_[0].startswith('stream:') for f_ in fired) and 'raise' in kinds_seq and \
                    any(st['form'] in ('try', 'tryexc', 'chainexc') for st in spec_steps):
                superseded = True
            if fired and e['how'] == 'returned' and v != 'failed' and not awaits and not superseded:
                out.append(common.viol('C09.R2', '%s: %s fired while a statement ran but the summary says %s' % (lab, fired[0][0], v),
                                       dtid=e['dtid'], k=e['k']))
        else:
            for d in expect.cmp_verdict(e, E):
                out.append(common.viol('C09.R2', '%s: %s' % (lab, d), dtid=e['dtid'], k=e['k']))
        if v == 'failed':
            failed_by_op.setdefault(e['op'], []).append(e['dtid'])
        # R3: the report renders and names the exception type
        if e.get('render'):
            for with_tb, text in sorted(e['render'].items()):
                if text.startswith('RAISED:'):
                    out.append(common.viol('C09.R3', '%s: repr_failure(with_tb=%s) raised %s (verbose=%s, failure %s)' % (
                        lab, with_tb, text[7:], e.get('eff_verbose'), name), dtid=e['dtid'], k=e['k']))
                    continue
                m = REASON_RE.search(text)
                if not m or m.group(1) != name:
                    out.append(common.viol('C09.R3', '%s: report does not name the exception type %s (REASON line: %s)' % (
                        lab, name, m.group(1) if m else None), dtid=e['dtid'], k=e['k']))
                # R4: ... and the failing source line
                ln = e['summary'].get('failed_lineno')
                m2 = FILELINE_RE.search(text)
                if isinstance(ln, int) and (not m2 or int(m2.group(1)) != ln):
                    out.append(common.viol('C09.R4', '%s: report shows line %s but failed_lineno() is %s' % (
                        lab, m2.group(1) if m2 else None, ln), dtid=e['dtid'], k=e['k']))
        elif e['how'] == 'returned' and v == 'failed' and scn.get('render'):
            out.append(common.viol('C09.R3', '%s: failed but no report was rendered' % lab, dtid=e['dtid'], k=e['k']))
        # R4: failing line by construction
        if not async_fault:
            for d in expect.cmp_line(e, E, meta):
                out.append(common.viol('C09.R4', '%s: %s' % (lab, d), dtid=e['dtid'], k=e['k']))
            # R5 (per execution part): the statements that had to run did run
            for d in expect.cmp_hits(e, E):
                out.append(common.viol('C09.R5', '%s: %s' % (lab, d), dtid=e['dtid'], k=e['k']))
    # R5/R6: runner level
    predicted = common.predicted_execs(scn['world'], scn['ops'])
    for o in rec['ops']:
        op = scn['ops'][o['op']]
        if op['op'] not in ('runner', 'cli'):
            continue
        if o['how'] != 'returned':
            if o.get('exc_is_exception') or o['exc'] in ('SystemExit',):
                rule = 'C09.R6' if op['op'] == 'cli' else 'C09.R5'
                out.append(common.viol(rule, 'op%d %s did not return: %s: %s' % (o['op'], op['op'], o['exc'], o.get('exc_msg', '')[:200]),
                                       op=o['op'], exc=o['exc']))
            continue
        want_ids = [d for d, k, oi in predicted if oi == o['op']]
        ran = [e['dtid'] for e in rec['execs'] if e['op'] == o['op']]
        if sorted(ran) != sorted(want_ids):
            out.append(common.viol('C09.R5', 'op%d %s: doctests run %s, expected %s' % (o['op'], op['op'], sorted(ran), sorted(want_ids)),
                                   op=o['op']))
        nfail = len(failed_by_op.get(o['op'], []))
        if op['op'] == 'runner':
            val = o['value'] or {}
            if val.get('n_failed') != nfail or sorted(val.get('failed', [])) != sorted(failed_by_op.get(o['op'], [])):
                out.append(common.viol('C09.R5', 'op%d runner: reports failed=%s n_failed=%s, observed failing doctests %s' % (
                    o['op'], val.get('failed'), val.get('n_failed'), sorted(failed_by_op.get(o['op'], []))), op=o['op']))
        else:
            rc = (o['value'] or {}).get('rc')
            if (rc != 0) != (nfail > 0):
                out.append(common.viol('C09.R6', 'op%d main() returned %s with %d failing doctest(s)' % (o['op'], rc, nfail), op=o['op']))
    return out


def stats(rec, viols):
    s = {'fired': common.fired_kinds(rec), 'outcomes': {}, 'probes': {}, 'classes': []}
    scn = rec['scn']
    kind = scn.get('kind')
    s['probes']['kind_' + str(kind)] = 1
    for e in rec['execs']:
        h = common.how_ended(e)
        s['outcomes'][h] = s['outcomes'].get(h, 0) + 1
        E = e.get('E')
        if E is None:
            continue
        v, name, gw = expect.classify(e)
        if v == 'failed':
            n = len(E.executed_steps)
            pos = 'na'
            if E.fail_step is not None:
                steps = [x for x in rec['scn']['world'] and []]
            s['classes'].append('%s|%s|v%s|%s' % (kind, name, e.get('eff_verbose'), scn['ops'][e['op']]['op']))
            if e.get('render'):
                s['probes']['reports_rendered'] = s['probes'].get('reports_rendered', 0) + 1
                t = e['render'].get('True', '')
                if ', in sim_h' in t:
                    s['probes']['helper_frame_in_report'] = s['probes'].get('helper_frame_in_report', 0) + 1
                    if re.search(r', in sim_h\d+\n(?!    )', t + '\n'):
                        s['probes']['helper_frame_outside_failing_part_range'] = \
                            s['probes'].get('helper_frame_outside_failing_part_range', 0) + 1
        if e.get('trace') and e['trace'].get('fired_in'):
            site = e['trace']['fired_in'].split(':')[0]
            s['probes']['trace_in_' + site] = s['probes'].get('trace_in_' + site, 0) + 1
    planned = scn.get('plan', [])
    s['faulting'] = bool(planned) or kind in ('badcompile', 'baddirective')
    s['nontrivial'] = bool(rec['execs']) and (not planned or bool(rec['fired']))
    return s
