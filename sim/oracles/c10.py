"""C10 -- native runner tallies and exit status agree with the per-doctest
outcomes.

Worlds of several doctests whose nominal outcomes are drawn from {pass,
expected exception, all skipped, partly skipped, comment only, force-disabled,
fails by text}; the behaviour plan then turns a seeded subset of the passing
ones into 'fails by output' / 'fails by exception', so one module text meets
many outcome mixes.  Per-doctest outcomes are observed at DocTest.run,
independently of the runner's counting code; tallies are a conservation law
over that observed history.
"""
import re

import common
import expect
import gen
import world as W

ID = 'C10'
LEVEL = 'exploration'
N_QUICK = 5000
N_THOROUGH = 120000
ASSUMPTIONS = [
    'interrupts (KeyboardInterrupt / SystemExit) are excluded: the property does not say what "number run" means then',
    'every function of a generated module has a docstring with doctests (the zero-arg fallback of the runner is not exercised)',
]

DISABLE_TAGS = ['DISABLE_DOCTEST', 'SCRIPT', 'UNSTABLE', 'FAILING', 'SLOW_DOCTEST', 'disable_doctest']
BADCOMPILE = ['return 5', 'yield 5', 'break']


def shape_doctest(rng, dt, kind):
    steps = dt['steps']
    base = max(st['i'] for st in steps) + 1
    if kind == 'all_skipped' and rng.random() < 0.2:
        # nothing runs, and several of the parts that do not run read the same
        dt['steps'] = [{'i': j, 'form': 'const', 'pts': [], 'ps2': False, 'sep': 'none' if j == 0 else 'blank'}
                       for j in range(rng.randint(2, 4))]
        dt['steps'].insert(0, {'i': 9, 'form': 'directive', 'pts': [], 'ps2': False, 'sep': 'none',
                               'dirs': [['+', 'SKIP', None]]})
        return
    if kind == 'all_skipped':
        d = rng.choice([[['+', 'SKIP', None]], [['+', 'REQUIRES', 'env:SIM_NOT_SET']], [['+', 'REQUIRES', '--sim-absent-flag']]])
        steps.insert(0, {'i': base, 'form': 'directive', 'pts': [], 'ps2': False, 'sep': 'none', 'dirs': d})
        if len(steps) > 1:
            steps[1]['sep'] = 'none'
    elif kind == 'partly_skipped' and rng.random() < 0.35 and \
            any(st['form'] not in W.NOCODE_FORMS and st['form'] not in gen.NO_INLINE_FORMS and not st.get('inline') for st in steps):
        # everything switched off by a leading block directive; one statement switches itself back on
        cands = [st for st in steps if st['form'] not in W.NOCODE_FORMS and st['form'] not in gen.NO_INLINE_FORMS and not st.get('inline')]
        st = rng.choice(cands)
        st['inline'] = [['-', 'SKIP', None]]
        st['inline_at'] = rng.choice(['first', 'last'])
        steps.insert(0, {'i': base, 'form': 'directive', 'pts': [], 'ps2': False, 'sep': 'none', 'dirs': [['+', 'SKIP', None]]})
        steps[1]['sep'] = 'none'
    elif kind == 'partly_skipped' and len(steps) >= 2:
        pos = rng.randint(1, len(steps) - 1)
        steps.insert(pos, {'i': base, 'form': 'directive', 'pts': [], 'ps2': False, 'sep': steps[pos].get('sep', 'none'),
                           'dirs': [['+', 'SKIP', None]]})
        steps[pos + 1]['sep'] = 'none'
        if rng.random() < 0.5 and pos + 2 < len(steps):
            pos2 = rng.randint(pos + 2, len(steps))
            steps.insert(pos2, {'i': base + 1, 'form': 'directive', 'pts': [], 'ps2': False, 'sep': 'none',
                                'dirs': [['-', 'SKIP', None]]})
    elif kind == 'comment_only':
        dt['steps'] = [{'i': j, 'form': 'comment', 'pts': [], 'ps2': False, 'sep': 'none' if j == 0 else rng.choice(['none', 'blank'])}
                       for j in range(rng.randint(1, 3))]
    elif kind == 'disabled':
        dt['disabled'] = rng.choice(DISABLE_TAGS)
    elif kind == 'fails_by_text':
        how = rng.choice(['want', 'compile', 'directive'])
        wants = [st for st in steps if st.get('want') in ('acc', 'last', 'repr')]
        if how == 'want' and wants:
            rng.choice(wants)['want_corrupt'] = rng.choice(['replace', 'append', 'prepend', 'droplast'])
        elif how == 'compile':
            pos = rng.randint(0, len(steps))
            steps.insert(pos, {'i': base, 'form': 'badcompile', 'pts': [], 'text': rng.choice(BADCOMPILE), 'ps2': False,
                               'sep': 'blank'})
        else:
            pos = rng.randint(0, len(steps))
            steps.insert(pos, {'i': base, 'form': 'directive', 'pts': [], 'ps2': False, 'sep': 'none',
                               'dirs': [['+', 'REQUIRES', 'badflag:X']]})
    gen.fix_chunk_starts(dt['steps'])


def generate(rng, tier):
    cfg = gen.default_cfg(p_want=0.4, p_tb=rng.choice([0.05, 0.2]), max_steps=rng.choice([2, 4, 6]), p_helper=0.05)
    cfg['n_modules'] = (1, 3)
    cfg['n_funcs'] = (1, 4)
    cfg['max_doctests_per_doc'] = 3
    cfg['p_name_clash'] = rng.choice([0.0, 0.5])
    many = rng.random() < 0.002
    if many:
        # a module with (a multiple of) 256 doctests: an exit status is eight bits wide
        cfg['n_modules'] = (1, 1)
        cfg['n_funcs'] = (256, 256)
        cfg['max_doctests_per_doc'] = 1
        cfg['max_steps'] = 1
        cfg['p_class'] = 0.0
        cfg['p_moddoc'] = 0.0
        cfg['p_helper'] = 0.0
        cfg['forms'] = ['emit', 'assign', 'print']
    world = gen.gen_world(rng, cfg)
    kinds = {}
    for dtid, dt, mod in W.iter_doctests(world):
        r = rng.random() if not many else 0.0
        kind = ('pass' if r < 0.45 else 'all_skipped' if r < 0.55 else 'partly_skipped' if r < 0.65 else
                'comment_only' if r < 0.72 else 'disabled' if r < 0.85 else 'fails_by_text')
        shape_doctest(rng, dt, kind)
        kinds[dtid] = kind
    mods = [m['relpath'] for m in world['modules']]
    targets = mods + (['simpkg'] if len(mods) > 1 or rng.random() < 0.3 else [])
    zero_mod = None
    zero_names = []
    if rng.random() < 0.07 and not many and len(world['modules']) > 1:
        # a module that documents nothing: its functions without arguments are run through the
        # implicit examples the native runner builds when nothing documented matches the command
        zmod = rng.choice(world['modules'])
        for d in [d for d in kinds if d.startswith(zmod['name'] + '::')]:
            del kinds[d]
        zmod['items'] = []
        for zdt, zpid in gen.add_zero_funcs(rng, zmod, rng.randint(1, 3)):
            kinds[zdt] = 'pass'
            zero_names.append(zdt.split('::')[1].split(':')[0])
        zero_mod = zmod['relpath']
    ids = gen.doctest_ids(world)
    ops = []
    for _ in range(rng.randint(1, 3)):
        target = rng.choice(targets)
        r = rng.random()
        verbose = rng.choice([0, 1, 2, 3])
        if target == zero_mod:
            cmd = rng.choice(['zero-all', 'zero-all', 'zero', 'all', 'list'] + zero_names)
            if cmd == 'list':
                verbose = max(verbose, 1)
        elif r < 0.5:
            cmd = 'all'
        elif r < 0.65:
            cmd = 'list'
            verbose = max(verbose, 1)
        else:
            under = [d for d in ids if target == 'simpkg' or d.startswith(target[:-3].replace('/', '.') + '::')]
            d = rng.choice(under)
            callname = d.split('::')[1]
            cmd = callname if rng.random() < 0.6 else callname.rsplit(':', 1)[0]
        if rng.random() < 0.35:
            style = rng.choice(['pos', 'pos', 'opt', 'optmod', 'optcmd', 'long'])
            if style == 'pos':
                argv = ['PATH:' + target, cmd, '--verbose=%d' % verbose]
            elif style == 'opt':
                argv = ['-m', 'PATH:' + target, '-c', cmd, '--verbose=%d' % verbose]
            elif style == 'optmod':
                # the module by option, the command positional (the form the docs advertise)
                argv = ['-m', 'PATH:' + target, cmd, '--verbose=%d' % verbose]
            elif style == 'optcmd':
                argv = ['PATH:' + target, '-c', cmd, '--verbose=%d' % verbose]
            else:
                argv = ['--modname', 'PATH:' + target, '--command', cmd, '--verbose=%d' % verbose]
            if rng.random() < 0.2:
                argv.append('--time')
            if rng.random() < 0.3:
                # verbosity by the two shorthand flags
                argv = [a for a in argv if not a.startswith('--verbose=')] + [rng.choice(['--quiet', '--silent']) if cmd != 'list' else '--quiet']
            if rng.random() < 0.25:
                # default options that change nothing the doctests depend on
                argv.append(rng.choice(['--options=+ELLIPSIS', '--options=+NORMALIZE_WHITESPACE', '--options=-SKIP',
                                        '--options=+ELLIPSIS,-IGNORE_WANT']))
            if rng.random() < 0.4:
                argv += rng.sample(['--nocolor', '--durations=0', '--durations=3', '--offset', '--report=cdiff',
                                    '--report=none', '--analysis=static', '--analysis=dynamic'], rng.randint(1, 2))
            ops.append({'op': 'cli', 'argv': argv})
        else:
            ops.append({'op': 'runner', 'target': target, 'command': cmd, 'verbose': verbose,
                        'durations': rng.choice([None, None, 0, 2]),
                        'analysis': rng.choice(['auto', 'auto', 'static', 'dynamic'])})
            if rng.random() < 0.25:
                ops[-1]['config'] = {'default_runtime_state': rng.choice([{'ELLIPSIS': True}, {'SKIP': False}])}
            if rng.random() < 0.2:
                # the host program has a command line of its own; what was asked for explicitly counts
                ops[-1]['argv_from_process'] = True
    if rng.random() < 0.08 and not many:
        # between two operations of the same process somebody edits a module in place: one
        # character of a want changes, the size of the file and its time stamp do not.  What runs
        # and is reported afterwards is what is in the file then.
        cands = [(dtid, st['i'], mod) for dtid, dt, mod in W.iter_doctests(world) if kinds.get(dtid) == 'pass' and not dt.get('zero_arg')
                 for st in dt['steps'] if st.get('want') in ('acc', 'last', 'repr') and not st.get('want_corrupt')]
        static = all(o.get('analysis', 'auto') != 'dynamic' and '--analysis=dynamic' not in o.get('argv', []) for o in ops)
        if cands and static:
            dtid, step_i, mod = rng.choice(cands)
            pos = rng.randint(1, len(ops))
            ops.insert(pos, {'op': 'rewrite', 'dt': dtid, 'step_i': step_i})
            tail = {'op': 'runner', 'target': mod['relpath'], 'command': rng.choice(['all', dtid.split('::')[1]]),
                    'verbose': rng.choice([0, 1, 3])}
            if rng.random() < 0.4:
                tail = {'op': 'cli', 'argv': ['PATH:' + mod['relpath'], tail['command'], '--verbose=%d' % tail['verbose']]}
            ops.insert(rng.randint(pos + 1, len(ops)), tail)
    if rng.random() < 0.05 and not many:
        # code the caller asked to run before every doctest (--global-exec) that cannot run: the
        # error is not a doctest's, and the unchanged runner abandons the run with it.  An
        # abandoned run reports nothing; a run that does report must still add up.
        cands = [o for o in ops if o['op'] in ('runner', 'cli') and _cmd_of(o)[1] != 'list']
        if cands:
            o = rng.choice(cands)
            if o['op'] == 'runner':
                o['config'] = dict(o.get('config') or {}, global_exec='import sim_nosuch_module')
            else:
                o['argv'] = o['argv'] + ['--global-exec=import sim_nosuch_module']
    # plan: turn some passing executions into failures
    plan = []
    if many:
        ops = [{'op': 'cli', 'argv': ['PATH:' + mods[0], 'all', '--verbose=0']}]
    execs = common.predicted_execs(world, ops)
    p_fail = 0.25 if not many else 1.0
    for dtid, k, opidx in execs:
        if kinds.get(dtid) in ('pass', 'partly_skipped', 'disabled') and rng.random() < p_fail:
            pts = common.points_of(world, dtid)
            if not pts:
                continue
            p = rng.choice(pts)
            if rng.random() < 0.5 and not many:
                plan.append({'dt': dtid, 'k': k, 'pid': p['pid'], 'kind': rng.choice(['wrong', 'mute'])})
            else:
                plan.append({'dt': dtid, 'k': k, 'pid': p['pid'], 'kind': 'raise',
                             'exc': rng.choice(['ValueError', 'KeyError', 'SimError', 'AssertionError']), 'msg': 'fault ' + p['pid']})
    if rng.random() < 0.3:
        plan.append({'clock_jump': rng.randint(0, 12), 'delta': rng.choice([1e6, -1e6, 3600.0, -0.5])})
    if rng.random() < 0.06 and execs and not many:
        # Ctrl-C while one of the doctests runs: whatever the runner then reports, it must
        # not count doctests that were never run
        dtid, k, opidx = rng.choice(execs)
        pts = common.points_of(world, dtid)
        if pts:
            plan = [f for f in plan if not (f.get('dt') == dtid and f.get('k') == k)]
            plan.append({'dt': dtid, 'k': k, 'pid': rng.choice(pts)['pid'], 'kind': 'interrupt', 'exc': 'KeyboardInterrupt'})
    if rng.random() < 0.35:
        # code under test that emits warnings (recorded by the run, listed by the
        # runner) -- in doctests that pass, fail or are partly skipped alike
        taken = set((f['dt'], f['k'], f['pid']) for f in plan if 'pid' in f)
        for dtid, k, opidx in execs:
            if rng.random() < 0.4:
                pts = [p for p in common.points_of(world, dtid) if (dtid, k, p['pid']) not in taken]
                if pts:
                    plan.append({'dt': dtid, 'k': k, 'pid': pts[0]['pid'], 'kind': 'warn'})
        if rng.random() < 0.5:
            plan.append({'import': rng.choice(world['modules'])['name'], 'kind': 'warn'})
    env = {'listing_seed': rng.randint(0, 9999)}
    if rng.random() < 0.1 and not any(f.get('kind') == 'warn' for f in plan):
        # the host runs with -W error (the code under test stays silent then: a warning of
        # its own would be an exception of its own)
        env['warnings_error'] = True
    if any(o.get('argv_from_process') for o in ops):
        env['argv'] = ['xdsim', rng.choice(['nightly', 'list', 'all', 'f0', 'f1:0', 'K0'])]
    return {'profile': ID, 'world': world, 'ops': ops, 'plan': plan, 'kinds': kinds, 'env': env}


N_SWEEPS_THOROUGH = 300
SWEEP_RULE = ('for one sampled module (doctests with by-construction outcomes as in the sampled part): *every subset* of its up to '
              'six enabled doctests that have statements is made to fail (exception at the first statement), one subset per variant, '
              'through doctest_module(all) or main(); tallies, failed list and exit status must follow')


def sweep(rng, h):
    import copy
    base = generate(rng, 'thorough')
    world = base['world']
    mod = rng.choice(world['modules'])
    target = mod['relpath']
    verbose = rng.choice([0, 1, 3])
    if rng.random() < 0.5:
        op = {'op': 'runner', 'target': target, 'command': 'all', 'verbose': verbose}
    else:
        op = {'op': 'cli', 'argv': ['PATH:' + target, 'all', '--verbose=%d' % verbose]}
    base['ops'] = [op]
    cands = []
    for dtid, dt, m in W.iter_doctests(world):
        if m is mod and not dt.get('disabled') and not dt.get('zero_arg'):
            pts = common.points_of(world, dtid)
            if pts:
                cands.append((dtid, pts[0]['pid']))
    cands = cands[:6]
    out = []
    for mask in range(1 << len(cands)):
        v = copy.deepcopy(base)
        v['plan'] = [{'dt': d, 'k': 0, 'pid': pid, 'kind': 'raise', 'exc': 'ValueError', 'msg': 'fault ' + pid}
                     for j, (d, pid) in enumerate(cands) if mask >> j & 1]
        out.append(v)
    return out


def _cmd_of(op):
    if op['op'] == 'runner':
        return op['target'], op.get('command', 'all'), op.get('verbose', 0)
    argv = op['argv']
    target = [a[5:] for a in argv if a.startswith('PATH:')][0]
    cmd = 'all'
    if '-c' in argv:
        cmd = argv[argv.index('-c') + 1]
    elif '--command' in argv:
        cmd = argv[argv.index('--command') + 1]
    else:
        rest = [a for a in argv if not a.startswith('PATH:') and not a.startswith('-')]
        if rest:
            cmd = rest[0]
    verbose = 3
    for a in argv:
        if a.startswith('--verbose='):
            verbose = int(a.split('=')[1])
        elif a == '--quiet':
            verbose = 1
        elif a == '--silent':
            verbose = 0
    return target, cmd, verbose


def _under(world, target):
    out = []
    for dtid, dt, mod in W.iter_doctests(world):
        rel = mod['relpath']
        if rel == target or rel.startswith(target.rstrip('/') + '/'):
            out.append((dtid, dt, mod))
    return out


def check(rec):
    meta = expect.build(rec)
    scn = rec['scn']
    world = scn['world']
    out = []
    for o in rec['ops']:
        op = scn['ops'][o['op']]
        if op['op'] not in ('runner', 'cli'):
            continue
        target, cmd, verbose = _cmd_of(op)
        lab = 'op%d %s %s %s' % (o['op'], op['op'], target, cmd)
        bad_global = 'sim_nosuch_module' in str((op.get('config') or {}).get('global_exec')) or \
            any('sim_nosuch_module' in a for a in op.get('argv', []))
        if o['how'] != 'returned' and bad_global and o['exc'] == 'ModuleNotFoundError':
            continue        # abandoned with the caller's own error: nothing was reported
        if o['how'] != 'returned':
            out.append(common.viol('C10.R2', '%s did not return: %s: %s' % (lab, o['exc'], o.get('exc_msg', '')[:200]), op=o['op']))
            continue
        under = _under(world, target)
        execs = [e for e in rec['execs'] if e['op'] == o['op']]
        if any(e['how'] == 'raised' and e['exc'] == 'KeyboardInterrupt' for e in execs):
            # the property does not say what "number run" is after an interrupt; what it does
            # say is that the tallies are about doctests that ran
            val = o['value'] or {}
            if op['op'] == 'runner' and 'n_total' in val:
                done = [e for e in execs if e['how'] == 'returned']
                counted = val.get('n_passed', 0) + val.get('n_failed', 0) + val.get('n_skipped', 0)
                if counted > len(execs) or val.get('n_skipped', 0) > sum(1 for e in done if expect.classify(e)[0] == 'skipped') \
                        or val.get('n_passed', 0) > sum(1 for e in done if expect.classify(e)[0] == 'passed'):
                    out.append(common.viol('C10.R2', '%s interrupted after %d doctest(s) started, %d finished; reported passed %s failed %s skipped %s' % (
                        lab, len(execs), len(done), val.get('n_passed'), val.get('n_failed'), val.get('n_skipped')), op=o['op']))
            continue
        ran = sorted(e['dtid'] for e in execs)
        if cmd == 'list':
            if execs:
                out.append(common.viol('C10.R5', '%s executed doctests %s' % (lab, ran), op=o['op']))
            text = o.get('term') or ''
            for dtid, dt, mod in under:
                if dt.get('zero_arg'):
                    continue        # (only what is documented is listed)
                callname = dtid.split('::')[1]
                pat = re.compile(r'%s %s\s*$' % (re.escape(mod['relpath']), re.escape(callname)), re.M)
                if not pat.search(text):
                    out.append(common.viol('C10.R5', '%s does not name %s' % (lab, dtid), op=o['op'], dtid=dtid))
            if op['op'] == 'cli' and (o['value'] or {}).get('rc') != 0:
                out.append(common.viol('C10.R4', '%s returned %s' % (lab, o['value']), op=o['op']))
            continue
        if cmd == 'all':
            expected = sorted(dtid for dtid, dt, mod in under if not dt.get('disabled') and not dt.get('zero_arg'))
            rule = 'C10.R1'
        else:
            expected = sorted(dtid for dtid, dt, mod in under if not dt.get('zero_arg') and
                              cmd in (dtid.split('::')[1], dtid.split('::')[1].rsplit(':', 1)[0]))
            if not expected:
                # nothing documented matches: the functions that take no arguments
                zall = cmd in ('zero-all', 'zero', 'zero_all', 'zero-args')
                expected = sorted(dtid for dtid, dt, mod in under if dt.get('zero_arg') and
                                  (zall or cmd in (dtid.split('::')[1], dtid.split('::')[1].rsplit(':', 1)[0])))
                if zall:
                    expected = sorted(expected + ['%s::simshadow:0' % m['name'] for m in world['modules']
                                                  if m['relpath'] == target or m['relpath'].startswith(target.rstrip('/') + '/')])
            rule = 'C10.R6'
        if ran != expected:
            extra = [d for d in ran if d not in expected or ran.count(d) > expected.count(d)]
            missing = [d for d in expected if d not in ran]
            out.append(common.viol(rule, '%s ran %d doctest(s), expected %d: not run %s, run but not expected / run twice %s' % (
                lab, len(ran), len(expected), missing[:4], sorted(set(extra))[:4]), op=o['op']))
        # observed outcomes (independent of the runner's counting)
        obs = {'passed': [], 'failed': [], 'skipped': []}
        for e in execs:
            v, name, gw = expect.classify(e)
            if v in obs:
                obs[v].append(e['dtid'])
            else:
                out.append(common.viol('C10.R2', '%s: %s ended by %s %s' % (lab, e['dtid'], v, name), op=o['op']))
        nrun = len(execs)
        if op['op'] == 'runner':
            val = o['value'] or {}
            tallies = (val.get('n_passed'), val.get('n_failed'), val.get('n_skipped'), val.get('n_total'))
            if None in tallies:
                out.append(common.viol('C10.R2', '%s: summary has no tallies: %s' % (lab, val), op=o['op']))
            else:
                npass, nfail, nskip, ntot = tallies
                if npass + nfail + nskip != nrun or ntot != nrun:
                    out.append(common.viol('C10.R2', '%s: passed %d + failed %d + skipped %d, n_total %d, but %d doctest(s) were run' % (
                        lab, npass, nfail, nskip, ntot, nrun), op=o['op']))
                if (npass, nfail, nskip) != (len(obs['passed']), len(obs['failed']), len(obs['skipped'])):
                    out.append(common.viol('C10.R2', '%s: tallies passed/failed/skipped %s differ from the observed outcomes %s' % (
                        lab, (npass, nfail, nskip), (len(obs['passed']), len(obs['failed']), len(obs['skipped']))), op=o['op']))
                if sorted(val.get('failed', [])) != sorted(obs['failed']):
                    out.append(common.viol('C10.R3', '%s: failed list %s, doctests that failed %s' % (
                        lab, sorted(val.get('failed', [])), sorted(obs['failed'])), op=o['op']))
        else:
            rc = (o['value'] or {}).get('rc')
            if (rc != 0) != bool(obs['failed']):
                out.append(common.viol('C10.R4', '%s: main() returned %s with %d failing doctest(s)' % (lab, rc, len(obs['failed'])), op=o['op']))
            text = o.get('term') or ''
            m = re.search(r'=== (.*?) in [-\d.]+ seconds ===', text)
            if verbose >= 1 and nrun:
                if not m:
                    out.append(common.viol('C10.R2', '%s: no final summary line' % lab, op=o['op']))
                else:
                    got = {}
                    for part in m.group(1).split(', '):
                        bits = part.split(' ')
                        if len(bits) == 2 and bits[0].isdigit():
                            got[bits[1]] = int(bits[0])
                        else:
                            got['?'] = part         # (a tally the line does not spell out)
                    want = {k_: len(v_) for k_, v_ in obs.items() if v_}
                    got.pop('warnings', None)
                    if got != want:
                        out.append(common.viol('C10.R2', '%s: summary line says %s, observed outcomes %s' % (lab, got, want), op=o['op']))
        # the per-doctest verdicts themselves (so that "failed" means failed)
        for e in execs:
            E = e.get('E')
            for d in expect.cmp_verdict(e, E):
                out.append(common.viol('C10.R3', '%s: %s: %s' % (lab, e['dtid'], d), op=o['op'], dtid=e['dtid']))
    return out


def stats(rec, viols):
    s = {'fired': common.fired_kinds(rec), 'outcomes': {}, 'probes': {}, 'classes': []}
    scn = rec['scn']
    for o in rec['ops']:
        op = scn['ops'][o['op']]
        if op['op'] not in ('runner', 'cli'):
            continue
        target, cmd, verbose = _cmd_of(op)
        execs = [e for e in rec['execs'] if e['op'] == o['op']]
        mix = {'passed': 0, 'failed': 0, 'skipped': 0}
        for e in execs:
            v, name, gw = expect.classify(e)
            mix[v] = mix.get(v, 0) + 1
            s['outcomes'][common.how_ended(e)] = s['outcomes'].get(common.how_ended(e), 0) + 1
        c = 'all' if cmd == 'all' else 'list' if cmd == 'list' else 'name'
        s['classes'].append('%s|%s|p%d f%d s%d|v%d' % (op['op'], c, min(mix['passed'], 3), min(mix['failed'], 3), min(mix['skipped'], 3), verbose))
        s['probes']['cmd_' + c] = s['probes'].get('cmd_' + c, 0) + 1
        if execs and mix['failed'] and execs and expect.classify(execs[-1])[0] == 'failed':
            s['probes']['last_doctest_fails'] = s['probes'].get('last_doctest_fails', 0) + 1
        if execs and mix['skipped'] == len(execs):
            s['probes']['only_skipped'] = s['probes'].get('only_skipped', 0) + 1
        if target == 'simpkg':
            s['probes']['package_target'] = s['probes'].get('package_target', 0) + 1
    for k_, kind in scn.get('kinds', {}).items():
        s['probes']['kind_' + kind] = s['probes'].get('kind_' + kind, 0) + 1
    if any('clock_jump' in f for f in scn.get('plan', [])):
        s['probes']['clock_jump_planned'] = 1
    planned = [f for f in scn.get('plan', []) if 'clock_jump' not in f]
    s['faulting'] = bool(planned)
    s['nontrivial'] = bool(rec['execs']) or any(scn['ops'][o['op']].get('command') == 'list' for o in rec['ops'])
    return s
