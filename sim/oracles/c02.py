"""C02 -- got/want verdicts are exact: no false pass, no false fail.

The doctest text (wants included) is fixed and correct for the nominal plan;
what varies is the peer's answer.  A wrong / missing / extra answer is a fault
injected at a point; the oracle is the reference model (model.py) whose
verdict is decided by construction from unique, normalisation-inert tokens.
"""
import common
import expect
import gen

ID = 'C02'
LEVEL = 'exploration'
N_QUICK = 7000
N_THOROUGH = 200000
ASSUMPTIONS = [
    'tokens are unique per point and inert under every normalisation of checker.normalize',
    'the generator only emits want placements whose meaning the documentation fixes (DESIGN.md 5.3)',
]

PRINT_FORMS = {'emit', 'for', 'try', 'semiemit', 'callhelper_emit', 'if', 'asyncwith'}


def make_cfg(rng):
    cfg = gen.default_cfg(p_want=rng.choice([0.4, 0.6, 0.8]), p_tb=rng.choice([0.05, 0.05, 0.15]),
                          max_steps=rng.choice([4, 6, 9]), p_helper=0.1)
    cfg['p_say'] = rng.choice([0.0, 0.0, 0.2, 0.5])
    cfg['n_modules'] = (1, 1)
    cfg['n_funcs'] = (1, 3)
    cfg['forms'] = list(gen.SIMPLE_FORMS) + ['emitop', 'emitnoeol', 'emitnoeol', 'writeout', 'writeout', 'const', 'const', 'modsay', 'strsemi', 'emitcr']
    cfg['p_none_want'] = rng.choice([0.0, 0.15])
    if rng.random() < 0.25:
        cfg['async_forms'] = list(gen.ASYNC_FORMS)
        cfg['p_async'] = 0.3
    return cfg


SILENT_FORMS = {'assign', 'semi', 'with', 'multicall', 'callmod', 'tq', 'callhelper', 'strdirective'}


def stale_sources(steps, upto):
    """text that statements before index ``upto`` really produced: (kind, pid),
    most recent expression value first"""
    import world as W
    out = []
    for st in reversed(steps[:upto]):
        if st['form'] in W.VALUE_FORMS and st['form'] != 'emitop':
            out.append({'kind': 'repr', 'pid': st['pts'][0]})
        elif st['form'] in ('print', 'emit', 'emitop', 'write'):
            out.append({'kind': 'out', 'pid': st['pts'][0]})
    return out


def corrupt_wants(rng, world):
    """with small probability corrupt one want in the *text* (C02's quantifier:
    replaced / line appended / line prepended / last line dropped).  The
    replacement / prepended line is either fresh text or text that was true
    earlier in the same doctest (an earlier value's repr, an earlier line)."""
    import world as W
    cands = []
    for dtid, dt, mod in W.iter_doctests(world):
        for j, st in enumerate(dt['steps']):
            if st.get('want') in ('acc', 'last', 'repr'):
                cands.append((dt, j, st))
            elif not st.get('want') and st['form'] in SILENT_FORMS and not st.get('inline') and stale_sources(dt['steps'], j):
                cands.append((dt, j, st))
    if not cands:
        return
    dt, j, st = rng.choice(cands)
    src = stale_sources(dt['steps'], j)
    if not st.get('want'):
        # a want where the statement produces nothing at all
        st['want'] = 'stale'
        st['stale'] = src[0] if rng.random() < 0.6 else rng.choice(src)
        import gen
        gen.fix_chunk_starts(dt['steps'])
        return
    kinds = ['replace', 'append', 'prepend', 'droplast']
    if src:
        kinds += ['stale_replace', 'stale_prepend', 'stale_replace']
    st['want_corrupt'] = rng.choice(kinds)
    if st['want_corrupt'].startswith('stale'):
        st['stale'] = src[0] if rng.random() < 0.6 else rng.choice(src)


def ignored_want_then_stale(rng, world):
    """a want that is switched off still closes the window: text written before it
    (or by its own statement) cannot satisfy a later want"""
    import world as W
    cands = []
    for dtid, dt, mod in W.iter_doctests(world):
        steps = dt['steps']
        wanted = [j for j, st in enumerate(steps) if st.get('want') in ('acc', 'last', 'repr') and not st.get('inline')
                  and st['form'] not in gen.NO_INLINE_FORMS]
        for a in wanted:
            for b in wanted:
                if b > a and stale_sources(steps, a + 1):
                    cands.append((steps, a, b))
    if not cands:
        return False
    steps, a, b = rng.choice(cands)
    steps[a]['inline'] = [['+', 'IGNORE_WANT', None]]
    steps[a]['inline_at'] = rng.choice(['first', 'last'])
    if rng.random() < 0.5:
        steps[a]['want_corrupt'] = 'replace'        # ignored anyway
    src = [x for x in stale_sources(steps, a + 1) if x['kind'] == 'out']
    if not src:
        return False
    steps[b]['want_corrupt'] = 'stale_prepend'
    steps[b]['stale'] = src[0]
    gen.fix_chunk_starts(steps)
    return True


def generate(rng, tier):
    cfg = make_cfg(rng)
    world = gen.gen_world(rng, cfg)
    text_corruption = rng.random() < 0.15
    if text_corruption:
        if rng.random() < 0.25 and ignored_want_then_stale(rng, world):
            pass
        else:
            corrupt_wants(rng, world)
    if rng.random() < 0.3:
        # doctests in which nothing, or only a part, runs (R5; and a skipped want is no want)
        import world as W
        for dtid, dt, mod in W.iter_doctests(world):
            if rng.random() < 0.5:
                if rng.random() < 0.15:
                    # nothing runs, and several of the parts that do not run read the same
                    dt['steps'] = [{'i': j, 'form': 'const', 'pts': [], 'ps2': False, 'sep': 'none' if j == 0 else 'blank'}
                                   for j in range(rng.randint(2, 4))]
                    dt['steps'].insert(0, {'i': 9, 'form': 'directive', 'pts': [], 'ps2': False, 'sep': 'none',
                                           'dirs': [rng.choice([['+', 'SKIP', None], ['+', 'REQUIRES', 'env:SIM_NOT_SET']])]})
                else:
                    gen.add_skips(rng, dt['steps'])
    ids = gen.doctest_ids(world)
    rng.shuffle(ids)
    ops = []
    use_runner = rng.random() < 0.2
    if use_runner:
        ops.append({'op': 'runner', 'target': world['modules'][0]['relpath'], 'command': 'all',
                    'verbose': rng.choice([0, 0, 1, 3])})
    else:
        for d in ids[:rng.randint(1, 4)]:
            ops.append({'op': 'run_obj', 'dt': d, 'verbose': rng.choice([0, 0, 0, 1, 2, 3]),
                        'on_error': rng.choice(['return', 'return', 'raise'])})
        if rng.random() < 0.35:
            # the verdict of a run is about that run: the same object again
            for _ in range(rng.randint(1, 3)):
                again = dict(rng.choice(ops))
                again['verbose'] = rng.choice([0, 0, 2])
                again['on_error'] = 'return'
                ops.insert(rng.randint(1, len(ops)), again)
    plan = []
    execs = common.predicted_execs(world, ops)
    r = rng.random()
    n_faults = 0 if (r < 0.25 or text_corruption) else 1 if r < 0.9 else 2
    used = set()
    for _ in range(n_faults):
        dtid, k, opidx = rng.choice(execs)
        pts = common.points_of(world, dtid)
        if not pts or (dtid, k) in used:
            continue
        used.add((dtid, k))
        p = rng.choice(pts)
        if p['form'] in PRINT_FORMS or p['form'] in ('emit', 'say'):
            kind = rng.choice(['wrong', 'wrong', 'mute', 'extra_line', 'prepend_line', 'ansi'])
        else:
            kind = rng.choice(['wrong', 'wrong', 'wrong', 'bad_repr'])
        if rng.random() < 0.12:
            kind = 'raise'
        f = {'dt': dtid, 'k': k, 'pid': p['pid'], 'kind': kind}
        if kind == 'raise':
            f['exc'] = rng.choice(['ValueError', 'KeyError', 'ZeroDivisionError'])
            f['msg'] = rng.choice(['fault %s', 'fault %s went wrong.', 'fault %s in file data.txt']) % p['pid']
        plan.append(f)
    env = {'listing_seed': rng.randint(0, 99)}
    if rng.random() < 0.15:
        plan.append({'import': world['modules'][0]['name'], 'kind': 'print'})
    if rng.random() < 0.2:
        env['no_color'] = True              # NO_COLOR was set when xdoctest was imported
    if rng.random() < 0.12:
        env['warnings_error'] = True        # the host runs with -W error
    return {'profile': ID, 'world': world, 'ops': ops, 'plan': plan, 'env': env}


N_SWEEPS_THOROUGH = 600
SWEEP_RULE = ('for one doctest of a sampled world: every single corrupted answer -- wrong at every point, and missing / extra / '
              'prepended line at every printing point -- one fault per variant, plus the fault-free run')


def sweep(rng, h):
    cfg = make_cfg(rng)
    world = gen.gen_world(rng, cfg)
    ids = gen.doctest_ids(world)
    dt = rng.choice(ids)
    base = {'profile': ID, 'world': world, 'plan': [], 'env': {'listing_seed': rng.randint(0, 99)},
            'ops': [{'op': 'run_obj', 'dt': dt, 'verbose': rng.choice([0, 0, 2]), 'on_error': rng.choice(['return', 'raise'])}]}

    def faults(p):
        kinds = ['wrong']
        if p['form'] in PRINT_FORMS or p['form'] in ('emit', 'say', 'emitop'):
            kinds += ['mute', 'extra_line', 'prepend_line']
        return [{'kind': k_} for k_ in kinds]
    return [base] + common.single_fault_variants(base, dt, faults)


def check(rec):
    meta = expect.build(rec)
    out = []
    fault_free = not rec['scn'].get('plan')
    for e in rec['execs']:
        E = e.get('E')
        if E is None:
            continue
        lab = common.exec_label(e)
        v, name, gw = expect.classify(e)
        for d in expect.cmp_verdict(e, E):
            if fault_free and not _text_corrupted(rec):
                rule = 'C02.R1'
            elif E.verdict == 'failed' and E.gotwant:
                rule = 'C02.R2'
            elif E.verdict == 'passed' and v == 'failed':
                rule = 'C02.R4'
            elif E.verdict == 'skipped':
                rule = 'C02.R5'
            else:
                rule = 'C02.R6'
            out.append(common.viol(rule, '%s: %s' % (lab, d), dtid=e['dtid'], k=e['k']))
        for d in expect.cmp_hits(e, E):
            out.append(common.viol('C02.R3', '%s: %s' % (lab, d), dtid=e['dtid'], k=e['k']))
        if E.verdict == 'failed' and E.gotwant and v == 'failed' and gw:
            for d in expect.cmp_line(e, E, meta):
                out.append(common.viol('C02.R2', '%s: got/want error not attributed to the failing want: %s' % (lab, d),
                                       dtid=e['dtid'], k=e['k']))
            if e['how'] == 'returned':
                ms = meta[e['dtid']]['steps'][E.fail_step]
                fw = e['summary'].get('failed_want')
                if fw != ms['want_text']:
                    out.append(common.viol('C02.R2', '%s: failing part carries want %r, expected %r' % (lab, fw, ms['want_text']),
                                           dtid=e['dtid'], k=e['k']))
        # flags consistent: exactly one of passed/failed/skipped
        if e['how'] == 'returned' and sum(e['summary']['flags']) != 1:
            out.append(common.viol('C02.R6', '%s: summary flags %s are not exclusive' % (lab, e['summary']['flags']),
                                   dtid=e['dtid'], k=e['k']))
    return out


def _text_corrupted(rec):
    import world as W
    for dtid, dt, mod in W.iter_doctests(rec['scn']['world']):
        for st in dt['steps']:
            if st.get('want_corrupt') or st.get('want') == 'stale':
                return True
    return False


def stats(rec, viols):
    s = {'fired': common.fired_kinds(rec), 'outcomes': {}, 'probes': {}, 'classes': []}
    for e in rec['execs']:
        E = e.get('E')
        h = common.how_ended(e)
        s['outcomes'][h] = s['outcomes'].get(h, 0) + 1
        if E is None:
            continue
        ev = E.verdict if 'verdict' not in E.silent else 'silent'
        s['classes'].append('%s|%s|%s' % (ev, bool(E.gotwant), len(E.executed_steps) > 3))
        key = 'model_' + str(ev)
        s['probes'][key] = s['probes'].get(key, 0) + 1
        if E.verdict == 'failed' and E.gotwant:
            s['probes']['corruption_inside_window'] = s['probes'].get('corruption_inside_window', 0) + 1
        if E.verdict == 'passed' and e['fired']:
            s['probes']['fault_outside_every_window_passes'] = s['probes'].get('fault_outside_every_window_passes', 0) + 1
        for n in E.notes:
            if 'suffix' in n:
                s['probes']['model_silent_suffix'] = s['probes'].get('model_silent_suffix', 0) + 1
    if _text_corrupted(rec):
        s['probes']['want_text_corrupted'] = 1
    planned = rec['scn'].get('plan', [])
    s['faulting'] = bool(planned)
    s['nontrivial'] = common.anything_executed(rec) and (not planned or bool(rec['fired']))
    return s
