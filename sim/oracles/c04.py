"""C04 -- directive scoping: block persists, inline is local, skipped code
never runs.

A doctest is rendered from a seeded history of directive events (block /
inline x +-SKIP, +-REQUIRES(met / unmet a / unmet b), +-IGNORE_WANT)
interleaved with statements of every shape, with wants that are deliberately
wrong on some statements, and directive-looking text inside string literals.
It runs under a simulated environment in which the simulator decides what is
met (os.environ, sys.argv, platform tags, module availability) and under
default options given by config or by main(['--options=...']).
Oracle: the set and order of peer hits and the verdict equal what the
reference directive machine predicts.
"""
import copy

import common
import directives as D
import expect
import gen
import world as W

ID = 'C04'
LEVEL = 'exploration'
N_QUICK = 7000
N_THOROUGH = 200000
ASSUMPTIONS = [
    'directives are only placed alone on a prompt line or at the end of the first / last line of a statement',
    'there is no scheduler or clock in this property: the simulation contributes the environment REQUIRES is evaluated '
    'against and the history oracle over the hit log; histories of events are sampled',
]

MET = ['env:SIM_A==1', '--sim-flag', 'linux', 'posix', 'cpython', 'py3', 'module:os', 'env:SIM_A', 'env:SIM_B!=1', 'CPython', 'Linux',
       'module:json.decoder', 'module:xdoctest.utils']
UNMET_A = ['env:SIM_NOT_SET', 'env:SIM_A==2', '--sim-absent', 'win32', 'module:sim_no_such_module', 'module:json.sim_no_such_sub',
           'module:xdoctest.sim_nope', 'module:sim_nopkg.sub']
UNMET_B = ['env:SIM_A!=1', 'pypy', 'nt', 'env:SIM_OTHER==x', '--sim-absent-2']
STMT_FORMS = ['assign', 'emit', 'print', 'expr', 'multiline', 'multicall', 'for', 'if', 'with', 'try', 'semi',
              'semiemit', 'callmod', 'strdirective', 'write', 'decoclass', 'decoasync', 'decodef2', 'blankprompt', 'comment',
              'tqdirective', 'badcompile']
ENV = {'environ': {'SIM_A': '1'}, 'argv': ['xdsim', '--sim-flag']}


def rand_directive(rng, a, b):
    r = rng.random()
    sign = rng.choice(['+', '-'])
    if r < 0.35:
        return [[sign, 'SKIP', None]]
    if r < 0.5:
        return [[sign, 'REQUIRES', rng.choice(MET)]]
    if r < 0.68:
        return [[sign, 'REQUIRES', a]]
    if r < 0.82:
        return [[sign, 'REQUIRES', b]]
    if r < 0.88:
        return [[sign, 'REQUIRES', rng.choice([a + ', ' + b, a + ', ' + rng.choice(MET), b + ', ' + a])]]
    if r < 0.93:
        return [[sign, 'IGNORE_WANT', None]]
    if r < 0.97:
        # a flag other than SKIP whose effect is visible: wants written with an ellipsis
        return [[sign, 'ELLIPSIS', None]]
    if rng.random() < 0.5:
        # several effects in one comment
        return [[sign, 'REQUIRES', a], [rng.choice(['+', '-']), 'REQUIRES', b]]
    return [[sign, 'SKIP', None], [rng.choice(['+', '-']), 'REQUIRES', rng.choice([a, b])]]


def gen_history(rng, pfx, modname, n_events):
    a = rng.choice(UNMET_A)
    b = rng.choice(UNMET_B)
    if rng.random() < 0.15:
        a, b = rng.choice([('env:SIM_CASE', 'env:sim_case'), ('module:sim_NoSuch', 'module:sim_nosuch')])   # differ in case only
    steps = []
    i = 0
    helpers = []
    for _ in range(n_events):
        r = rng.random()
        if r < 0.3:
            steps.append({'i': i, 'form': 'directive', 'pts': [], 'ps2': False, 'sep': rng.choice(['none', 'none', 'blank']),
                          'dirs': rand_directive(rng, a, b)})
            i += 1
            continue
        forms = list(STMT_FORMS)
        if helpers:
            forms += ['callhelper', 'callhelper']
        form = rng.choice(forms) if rng.random() > 0.12 else 'defhelper'
        npts = gen.NPTS.get(form, 1)
        st = {'i': i, 'form': form, 'pts': ['%ss%d%s' % (pfx, i, 'abc'[j]) for j in range(npts)],
              'ps2': rng.random() < 0.4, 'sep': rng.choice(['none', 'none', 'none', 'blank', 'prose'])}
        if form == 'defhelper':
            st['deco'] = rng.random() < 0.6
            st['pad'] = rng.choice([0, 1, 3])
            helpers.append(i)
        if form == 'callhelper':
            st['ref'] = rng.choice(helpers)
        if form == 'callmod':
            st['depth'] = rng.randint(1, 3)
        if form == 'blankprompt':
            st['n'] = rng.choice([1, 2])
            st['ps2'] = False
        if form == 'tqdirective':
            st['ps2'] = False
        if form == 'badcompile':
            # parses, but does not compile: only a problem where it is not skipped
            st['text'] = rng.choice(['return 5', 'yield 5', 'break', 'continue'])
            st['pts'] = []
            st['ps2'] = False
            st['sep'] = 'blank'
        if rng.random() < 0.35 and form not in W.NOCODE_FORMS and form not in ('tqdirective', 'badcompile'):
            st['inline'] = rand_directive(rng, a, b)
            st['inline_at'] = rng.choice(['first', 'last', 'own'])
        # want
        if form not in ('defhelper',) and rng.random() < 0.45:
            cands = []
            if W.form_out(st):
                cands.append('acc')
                if W.is_expr(st):
                    cands.append('last')
            if W.value_repr(st):
                cands.append('repr')
            if form in ('emit', 'print'):
                # (expression statements: split off as a part of their own, so the
                # want is about this statement's line alone)
                cands.append('ell')
            if cands:
                st['want'] = rng.choice(cands)
                if rng.random() < 0.3 and st['want'] != 'ell':
                    st['want_corrupt'] = rng.choice(['replace', 'append', 'prepend', 'droplast'])
        steps.append(st)
        i += 1
    if not any(st['form'] not in ('directive',) for st in steps):
        steps.append({'i': i, 'form': 'emit', 'pts': ['%ss%da' % (pfx, i)], 'ps2': False, 'sep': 'none'})
    steps[0]['sep'] = 'none'
    return steps


def retarget(steps, old, new):
    out = copy.deepcopy(steps)
    for st in out:
        st['pts'] = [p.replace(old, new, 1) for p in st.get('pts', [])]
    return out


def generate(rng, tier):
    n_funcs = rng.randint(1, 3)
    env = copy.deepcopy(ENV)
    r = rng.random()
    if r < 0.15:
        env['environ'] = {}
    elif r < 0.3:
        env['argv'] = ['xdsim']
    env['listing_seed'] = rng.randint(0, 99)
    if rng.random() < 0.1:
        env['warnings_error'] = True        # the host runs with -W error: directives that restate the state are still just directives
    defaults = rng.choice([None, None, None, None, {'SKIP': True}, {'IGNORE_WANT': True}, {'SKIP': False}, {'ELLIPSIS': False},
                           {'SKIP': True, 'ELLIPSIS': False}])
    how_defaults = rng.choice(['config', 'cli']) if defaults else None
    items = []
    modname = 'simpkg.m0'
    for fi in range(n_funcs):
        pfx = 'q0f%dd0' % fi
        steps = gen_history(rng, pfx, modname, rng.randint(2, 12) if tier == 'quick' else rng.randint(2, 16))
        dt = {'steps': steps, 'tag': 'Example'}
        if defaults:
            dt['defaults'] = defaults
        layout = rng.choice(['google', 'freeform'])
        items.append({'kind': 'func', 'name': 'f%d' % fi, 'doc': {'layout': layout, 'tabs': False, 'doctests': [dt]}})
    twin_of = {}
    if defaults and how_defaults == 'config':
        # R4: the same doctest with the defaults written as a leading block directive
        for fi in range(n_funcs):
            src = items[fi]['doc']['doctests'][0]
            steps = retarget(src['steps'], 'q0f%dd0' % fi, 'q0t%dd0' % fi)
            base = max(st['i'] for st in steps) + 1
            lead = {'i': base, 'form': 'directive', 'pts': [], 'ps2': False, 'sep': 'none',
                    'dirs': [['+' if v else '-', k, None] for k, v in sorted(defaults.items())]}
            steps[0]['sep'] = 'none'
            tw = {'steps': [lead] + steps, 'tag': 'Example', 'defaults': {}}
            items.append({'kind': 'func', 'name': 't%d' % fi, 'doc': {'layout': items[fi]['doc']['layout'], 'tabs': False, 'doctests': [tw]}})
            twin_of['%s::t%d:0' % (modname, fi)] = '%s::f%d:0' % (modname, fi)
    world = {'modules': [{'name': modname, 'relpath': 'simpkg/m0.py', 'items': items}], 'init_files': ['simpkg/__init__.py']}
    ops = []
    if how_defaults == 'cli':
        opt = ','.join(('+' if v else '-') + k for k, v in sorted(defaults.items()))
        ops.append({'op': 'cli', 'argv': ['PATH:simpkg/m0.py', 'all', '--verbose=%d' % rng.choice([0, 1, 3]), '--options=' + opt]})
        if rng.random() < 0.4:
            # the environment suggests other defaults; what is given on the command line counts
            env['environ'] = dict(env.get('environ', {}), XDOCTEST_OPTIONS=','.join(('-' if v else '+') + k for k, v in sorted(defaults.items())))
    else:
        for dtid in gen.doctest_ids(world):
            op = {'op': 'run_obj', 'dt': dtid, 'verbose': rng.choice([0, 0, 1, 3]), 'on_error': rng.choice(['return', 'return', 'raise'])}
            if defaults and dtid not in twin_of:
                op['config'] = {'default_runtime_state': dict(defaults)}
            ops.append(op)
        if rng.random() < 0.3 and not defaults:
            ops.append({'op': 'runner', 'target': 'simpkg/m0.py', 'command': 'all', 'verbose': 0})
        if rng.random() < 0.25:
            # what is met is decided when the statement is reached: the environment
            # changes, then the same objects run again
            env2 = copy.deepcopy(ENV)
            r2 = rng.random()
            if r2 < 0.4:
                env2['environ'] = {} if env.get('environ') else {'SIM_A': '1'}
            elif r2 < 0.7:
                env2['argv'] = ['xdsim'] if '--sim-flag' in env.get('argv', []) else ['xdsim', '--sim-flag']
            else:
                env2['environ'] = {'SIM_A': '2', 'SIM_NOT_SET': 'now-it-is', 'SIM_OTHER': 'x'}
                env2['argv'] = ['xdsim', '--sim-absent']
            again = [dict(o) for o in ops if o['op'] == 'run_obj']
            ops.append({'op': 'setenv', 'environ': env2['environ'], 'argv': env2['argv']})
            ops += again[:3]
    if defaults and rng.random() < 0.3:
        # default options also govern the implicit example the native runner builds for a
        # function without a docstring that takes no arguments
        (zdt, zpid), = gen.add_zero_funcs(rng, world['modules'][0], 1)
        if rng.random() < 0.5:
            ops.append({'op': 'runner', 'target': 'simpkg/m0.py', 'command': 'z0', 'verbose': rng.choice([0, 1, 3]),
                        'config': {'default_runtime_state': dict(defaults)}})
        else:
            opt = ','.join(('+' if v else '-') + k for k, v in sorted(defaults.items()))
            ops.append({'op': 'cli', 'argv': ['PATH:simpkg/m0.py', 'z0', '--verbose=%d' % rng.choice([0, 1, 3]), '--options=' + opt]})
    # (an object whose run ended by a propagating exception keeps its namespace: running it again is
    # outside what is looked at here -- DESIGN.md 7.7 -- and the harness takes a fresh object)
    return {'profile': ID, 'world': world, 'ops': ops, 'plan': [], 'env': env, 'twin_of': twin_of,
            'recollect_after_propagation': True}


# ----------------------------------------------------------------------------
# thorough tier: every history of up to three directive events
# ----------------------------------------------------------------------------
EX_EVENTS = [(scope, sign, what) for scope in ('block', 'inline') for sign in '+-'
             for what in ('SKIP', 'met', 'a', 'b')]
EX_FORMS = ['emit', 'multiline', 'for', 'decorated', 'emit_want']
N_SWEEPS_THOROUGH = len(EX_FORMS) * len(EX_EVENTS)
SWEEP_RULE = ('bounded-exhaustive part of C04\'s quantifier: for each of 5 statement shapes (one-line, multi-line, compound, decorated '
              'def + call, statement with want) *every* sequence of 1, 2 and 3 directive events over the 16-event alphabet '
              '{block, inline} x {+,-} x {SKIP, REQUIRES(met), REQUIRES(unmet a), REQUIRES(unmet b)}, each event followed by a '
              'probe statement and one final probe; one sweep = one shape x one first event (273 doctests)')


def _ex_dirs(ev, args):
    scope, sign, what = ev
    if what == 'SKIP':
        return [[sign, 'SKIP', None]]
    return [[sign, 'REQUIRES', args[what]]]


def _ex_steps(pfx, form, events, args):
    steps = []
    n = [0]

    def stmt(inline=None, parity=0):
        i = n[0]
        if form == 'decorated':
            d = {'i': i, 'form': 'defhelper', 'pts': [], 'ps2': False, 'sep': 'none', 'deco': True, 'pad': 1}
            c = {'i': i + 1, 'form': 'callhelper', 'pts': ['%ss%da' % (pfx, i + 1)], 'ps2': False, 'sep': 'none', 'ref': i}
            if inline:
                tgt = d if parity else c
                tgt['inline'] = inline
                tgt['inline_at'] = 'first' if parity else 'last'
            n[0] += 2
            return [d, c]
        f = 'emit' if form == 'emit_want' else form
        st = {'i': i, 'form': f, 'pts': ['%ss%d%s' % (pfx, i, 'ab'[j]) for j in range(gen.NPTS.get(f, 1))],
              'ps2': bool(parity), 'sep': 'none'}
        if form == 'emit_want':
            st['want'] = 'acc'
            if parity:
                st['want_corrupt'] = 'replace'      # a wrong want: must not matter when the statement is skipped
        if inline:
            st['inline'] = inline
            st['inline_at'] = 'first' if parity else 'last'
        n[0] += 1
        return [st]
    for j, ev in enumerate(events):
        dirs = _ex_dirs(ev, args)
        if ev[0] == 'block':
            steps.append({'i': n[0], 'form': 'directive', 'pts': [], 'ps2': False, 'sep': 'none', 'dirs': dirs})
            n[0] += 1
            steps += stmt(None, j % 2)
        else:
            steps += stmt(dirs, j % 2)
    steps += stmt(None, 0)
    return steps


def sweep(rng, h):
    idx = h['index']
    form = EX_FORMS[idx % len(EX_FORMS)]
    e1 = EX_EVENTS[(idx // len(EX_FORMS)) % len(EX_EVENTS)]
    args = {'met': MET[idx % len(MET)], 'a': UNMET_A[idx % len(UNMET_A)], 'b': UNMET_B[idx % len(UNMET_B)]}
    env = copy.deepcopy(ENV)
    env['listing_seed'] = idx
    out = []
    for e2 in [None] + EX_EVENTS:
        items = []
        thirds = [None] if e2 is None else [None] + EX_EVENTS
        for fi, e3 in enumerate(thirds):
            events = [e for e in (e1, e2, e3) if e is not None]
            steps = _ex_steps('q0f%dd0' % fi, form, events, args)
            items.append({'kind': 'func', 'name': 'f%d' % fi,
                          'doc': {'layout': 'google' if fi % 2 else 'freeform', 'tabs': False,
                                  'doctests': [{'steps': steps, 'tag': 'Example'}]}})
        world = {'modules': [{'name': 'simpkg.m0', 'relpath': 'simpkg/m0.py', 'items': items}], 'init_files': ['simpkg/__init__.py']}
        ops = [{'op': 'run_obj', 'dt': d, 'verbose': 0, 'on_error': 'return'} for d in gen.doctest_ids(world)]
        out.append({'profile': ID, 'world': world, 'ops': ops, 'plan': [], 'env': env, 'twin_of': {}})
    return out


def check(rec):
    meta = expect.build(rec)
    scn = rec['scn']
    out = []
    by_dt = {}
    for e in rec['execs']:
        E = e.get('E')
        if E is None:
            continue
        lab = common.exec_label(e)
        by_dt.setdefault(e['dtid'], e)
        v, name, gw = expect.classify(e)
        for d in expect.cmp_hits(e, E):
            out.append(common.viol('C04.R1', '%s: %s' % (lab, d), dtid=e['dtid'], k=e['k']))
        for d in expect.cmp_verdict(e, E):
            rule = 'C04.R2'
            if v == 'failed' and not gw and name in ('Exception', 'KeyError', 'ValueError', 'TypeError', 'AttributeError'):
                rule = 'C04.R5'
            out.append(common.viol(rule, '%s: %s%s' % (lab, d, (' [%s]' % e['summary'].get('exc_msg', '')[:160]) if e.get('summary') and v == 'failed' else ''),
                                   dtid=e['dtid'], k=e['k']))
        for d in expect.cmp_stdout(e, E):
            out.append(common.viol('C04.R1', '%s: %s' % (lab, d), dtid=e['dtid'], k=e['k']))
    # R4: defaults == leading block directive (same doctest, two ways)
    for tw, orig in scn.get('twin_of', {}).items():
        a, b = by_dt.get(tw), by_dt.get(orig)
        if a is None or b is None:
            continue
        ha = [(p.replace('q0t', 'q0f', 1), n) for p, n in a['hits']]
        hb = [tuple(h) for h in b['hits']]
        va, vb = expect.classify(a)[:2], expect.classify(b)[:2]
        if ha != hb or va != vb:
            out.append(common.viol('C04.R4', 'defaults %s via config: %s %s; as leading block directive: %s %s' % (
                scn['world']['modules'][0]['items'][0]['doc']['doctests'][0].get('defaults'), vb, hb[:6], va, ha[:6]),
                dtid=orig))
    return out


def stats(rec, viols):
    s = {'fired': common.fired_kinds(rec), 'outcomes': {}, 'probes': {}, 'classes': []}
    scn = rec['scn']
    idx = expect.spec_index(scn['world'])
    for e in rec['execs']:
        h = common.how_ended(e)
        s['outcomes'][h] = s['outcomes'].get(h, 0) + 1
        E = e.get('E')
        if E is None:
            continue
        spec = idx[e['dtid']][0]
        n_dir = sum(1 for st in spec['steps'] if st['form'] == 'directive')
        n_inl = sum(1 for st in spec['steps'] if st.get('inline'))
        n_stmt = sum(1 for st in spec['steps'] if st['form'] not in W.NOCODE_FORMS)
        n_run = len(E.executed_steps)
        s['classes'].append('%s|b%d i%d|run%d of %d' % (E.verdict, min(n_dir, 4), min(n_inl, 4), min(n_run, 6), min(n_stmt, 6)))
        for st in spec['steps']:
            for d in (st.get('inline') or []):
                key = 'inline_%s%s' % (d[0], d[1])
                s['probes'][key] = s['probes'].get(key, 0) + 1
                if d[1] == 'REQUIRES' and st['form'] in gen.MULTILINE_FORMS:
                    s['probes']['inline_requires_on_compound'] = s['probes'].get('inline_requires_on_compound', 0) + 1
            if st['form'] == 'directive':
                for d in st['dirs']:
                    key = 'block_%s%s' % (d[0], d[1])
                    s['probes'][key] = s['probes'].get(key, 0) + 1
            if st.get('want_corrupt') and st['i'] not in [spec['steps'][j]['i'] for j in E.executed_steps]:
                s['probes']['wrong_want_on_skipped_statement'] = s['probes'].get('wrong_want_on_skipped_statement', 0) + 1
            if st['form'] == 'strdirective':
                s['probes']['directive_text_in_string'] = s['probes'].get('directive_text_in_string', 0) + 1
        if 0 < n_run < n_stmt:
            s['probes']['partly_skipped'] = s['probes'].get('partly_skipped', 0) + 1
    if scn.get('twin_of'):
        s['probes']['defaults_twin_pairs'] = len(scn['twin_of'])
    if any(o['op'] == 'cli' for o in scn['ops']):
        s['probes']['defaults_via_cli_options'] = 1
    s['faulting'] = False
    s['nontrivial'] = bool(rec['execs'])
    return s
