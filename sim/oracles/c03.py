"""C03 -- exceptions are never swallowed; only a matching expected traceback
passes.

Fault enumeration over exception kind x position x want form x flags.  The
text carries the want form next to a point; the plan decides whether and what
the point raises.  Whether the formatted exception matches the want is decided
by construction (identical / unique-different / prefix...), never by a second
implementation of the matcher.
"""
import common
import expect
import gen
import world as W

ID = 'C03'
LEVEL = 'fault_enumeration'
N_QUICK = 7000
N_THOROUGH = 200000
ASSUMPTIONS = [
    'a traceback want is only attached to a statement that is a part of its own (DESIGN.md 5.3)',
    'messages of injected exceptions are unique and differ from the nominal message in their first four characters',
]

SUBCLASSES = {'LookupError': ['KeyError', 'IndexError'], 'ArithmeticError': ['ZeroDivisionError'],
              'ValueError': ['SimValueSub'], 'RuntimeError': ['RecursionError']}
TB_KINDS_ALL = ['tb', 'tb', 'tbstack', 'tbbare', 'tbell', 'tbell2', 'tbwrongmsg', 'tbwrongtype', 'tbdetail', 'tbdots', 'tbdots',
                'tbdotssuffix', 'tbdotsonly']
FLAGSETS = [[], [], [], [['+', 'IGNORE_EXCEPTION_DETAIL', None]], [['-', 'ELLIPSIS', None]],
            [['+', 'IGNORE_WANT', None]], [['+', 'IGNORE_EXCEPTION_DETAIL', None], ['-', 'ELLIPSIS', None]]]


def generate(rng, tier):
    cfg = gen.default_cfg(p_want=0.25, p_tb=rng.choice([0.3, 0.5, 0.7]), max_steps=rng.choice([3, 5, 7]),
                          p_helper=0.1, tb_kinds=list(TB_KINDS_ALL))
    cfg['n_modules'] = (1, 1)
    cfg['n_funcs'] = (1, 3)
    cfg['forms'] = list(gen.SIMPLE_FORMS) + ['chainexc', 'chainexc']
    if rng.random() < 0.15:
        cfg['async_forms'] = ['await', 'awaitexpr']
        cfg['p_async'] = 0.3
    world = gen.gen_world(rng, cfg)
    modname = world['modules'][0]['name']
    # doctest-defined exception classes + flags by directive
    for dtid, dt, mod in W.iter_doctests(world):
        steps = dt['steps']
        base = max(st['i'] for st in steps) + 1
        if rng.random() < 0.3:
            steps.insert(0, {'i': base, 'form': 'defclass', 'pts': [], 'ps2': rng.random() < 0.5, 'sep': 'none'})
            steps[1]['sep'] = rng.choice(['none', 'blank'])
            for st in steps:
                if st.get('exc') and st['form'] in ('expr', 'print', 'emit', 'assign', 'multiline') and rng.random() < 0.5:
                    st['exc'] = {'exc': 'doc:%s.SimDocErr' % mod['name'], 'msg': 'boom ' + W.tok(st['pts'][0])}
                    if st['want'] == 'tbell':
                        pass
            base += 1
        fl = rng.choice(FLAGSETS)
        if fl:
            how = rng.choice(['block', 'inline', 'inline'])
            if how == 'block':
                pos = rng.randint(0, len(steps) - 1)
                steps.insert(pos, {'i': base, 'form': 'directive', 'pts': [], 'ps2': False,
                                   'sep': steps[pos].get('sep', 'none') if pos else 'none', 'dirs': fl})
                if pos + 1 < len(steps):
                    steps[pos + 1]['sep'] = 'none'
            else:
                for st in steps:
                    if st.get('want', '') and st['want'].startswith('tb') and st['form'] not in ('tq', 'tqprint', 'bgtask'):
                        st['inline'] = fl
                        st['inline_at'] = rng.choice(['first', 'last', 'own'])
        for st in steps:
            if (st.get('want') or '').startswith('tb') and rng.random() < 0.15:
                st['want_indent'] = rng.choice([2, 4])      # a want written deeper than its prompt
        if rng.random() < 0.12 and not any(st['form'] == 'directive' for st in steps):
            # a flag switched on for one statement -- by a comment on a line of its own inside the
            # statement's brackets, or at the end of a line -- is off again for the next statement:
            # the same kind of want must fail there
            pfx = None
            for st in steps:
                if st.get('pts'):
                    pfx = st['pts'][0].split('s')[0]
                    break
            if pfx:
                b = max(st['i'] for st in steps) + 1
                wk = rng.choice(['tbwrongmsg', 'tbdetail'])
                first = {'i': b, 'form': 'multiline', 'pts': ['%ss%da' % (pfx, b)], 'ps2': True, 'sep': 'blank',
                         'want': wk, 'exc': {'exc': 'ValueError', 'msg': 'first ' + W.tok('%ss%da' % (pfx, b))},
                         'inline': [['+', 'IGNORE_EXCEPTION_DETAIL', None]], 'inline_at': rng.choice(['own', 'own', 'last', 'first'])}
                second = {'i': b + 1, 'form': rng.choice(['expr', 'multiline']), 'pts': ['%ss%da' % (pfx, b + 1)], 'ps2': True, 'sep': rng.choice(['none', 'blank']),
                          'want': wk, 'exc': {'exc': 'ValueError', 'msg': 'second ' + W.tok('%ss%da' % (pfx, b + 1))}}
                if rng.random() < 0.5:
                    # the very same exception text and the very same want, twice: what was found
                    # under the first statement's flag is not an answer for the second
                    first['exc']['msg'] = second['exc']['msg'] = 'the same detail'
                    if rng.random() < 0.5:
                        # ... the other way round: an ellipsis want that matches under the default
                        # flags, then the same text and want where the statement switches ELLIPSIS off
                        first['want'] = second['want'] = 'tbell'
                        del first['inline']
                        second['inline'] = [['-', 'ELLIPSIS', None]]
                        second['inline_at'] = rng.choice(['last', 'first', 'own'])
                steps.extend([first, second])
        gen.fix_chunk_starts(steps)
    # wants that need a flag to match are left as they are: then they must fail
    ids = gen.doctest_ids(world)
    rng.shuffle(ids)
    ops = []
    defaults = None
    if rng.random() < 0.15:
        defaults = rng.choice([{'IGNORE_EXCEPTION_DETAIL': True}, {'ELLIPSIS': False}, {'IGNORE_WANT': True}])
    if rng.random() < 0.2:
        # the native runner hands one configuration to every doctest of the module: flags a
        # doctest switches on for itself are not the next doctest's flags
        first = True
        for dtid, dt, mod in W.iter_doctests(world):
            steps = dt['steps']
            if first:
                first = False
                base = max(st['i'] for st in steps) + 1
                steps.insert(0, {'i': base, 'form': 'directive', 'pts': [], 'ps2': False, 'sep': 'none',
                                 'dirs': [['+', 'IGNORE_EXCEPTION_DETAIL', None]]})
                if len(steps) > 1:
                    steps[1]['sep'] = 'none'
            else:
                for st in steps:
                    if (st.get('want') or '') in ('tb', 'tbstack', 'tbbare', 'tbdots') and not st.get('inline') and rng.random() < 0.6:
                        st['want'] = rng.choice(['tbwrongmsg', 'tbdetail'])
            gen.fix_chunk_starts(steps)
        op = {'op': 'runner', 'target': world['modules'][0]['relpath'], 'command': 'all', 'verbose': rng.choice([0, 1, 3]),
              'config': {'default_runtime_state': dict(defaults or {'NORMALIZE_WHITESPACE': True})}}
        ops.append(op)
    else:
        for d in ids[:rng.randint(1, 3)]:
            op = {'op': 'run_obj', 'dt': d, 'verbose': rng.choice([0, 0, 1, 3]),
                  'on_error': rng.choice(['return', 'return', 'raise'])}
            if defaults:
                op['config'] = {'default_runtime_state': defaults}
            ops.append(op)
    plan = []
    execs = common.predicted_execs(world, ops)
    used = set()
    nominal_exc = {}
    for dtid, dt, mod in W.iter_doctests(world):
        for st in dt['steps']:
            if st.get('exc') and st.get('pts'):
                nominal_exc[st['pts'][1 if st['form'] == 'chainexc' else st.get('raise_at', 0)]] = st['exc']['exc']
    n_faults = rng.choice([0, 1, 1, 1, 2])
    for _ in range(n_faults):
        dtid, k, opidx = rng.choice(execs)
        pts = common.points_of(world, dtid)
        if not pts or (dtid, k) in used:
            continue
        used.add((dtid, k))
        tbpts = [p for p in pts if (p['want'] or '').startswith('tb') and p['j'] == p['raise_at']]
        p = rng.choice(tbpts) if (tbpts and rng.random() < 0.7) else rng.choice(pts)
        r = rng.random()
        f = {'dt': dtid, 'k': k, 'pid': p['pid']}
        if r < 0.25 and (p['want'] or '').startswith('tb') and p['j'] == p['raise_at']:
            f['kind'] = 'noraise'
        elif r < 0.32:
            # not an Exception, and not one of the graceful exits: must come out of run()
            f['kind'] = 'interrupt'
            f['exc'] = rng.choice(['Failed', 'Failed', 'SimBaseExc', 'KeyboardInterrupt', 'KeyboardInterrupt'])
        else:
            f['kind'] = 'raise'
            f['exc'] = rng.choice(['ValueError', 'ZeroDivisionError', 'RuntimeError', 'AssertionError', 'KeyError',
                                   'SimError', 'mod:%s.SimLocalError' % modname, 'LookupError'])
            nom = nominal_exc.get(p['pid'])
            if nom in SUBCLASSES and rng.random() < 0.6:
                # a proper subclass of the class the want names: still another type
                f['exc'] = rng.choice(SUBCLASSES[nom])
            f['msg'] = rng.choice(['other ' + p['pid'], '', 'other: colon ' + p['pid'], 'other\nmulti ' + p['pid'],
                                   'xyz...' + p['pid'], 'other %s went wrong.' % p['pid'], 'other %s in file data.txt' % p['pid']])
            f['depth'] = rng.choice([0, 0, 2])
        plan.append(f)
    return {'profile': ID, 'world': world, 'ops': ops, 'plan': plan, 'env': {'listing_seed': rng.randint(0, 99)}}


N_SWEEPS_THOROUGH = 600
SWEEP_RULE = ('for one doctest of a sampled world (want forms and flags as sampled): at every point, every exception kind of the '
              'table -- other class, nominal class with another message, module-qualified class, from called code at depth 2, '
              'empty / multi-line / ellipsis message -- and "does not raise" where the text expects an exception; one per variant')


def sweep(rng, h):
    base = generate(rng, 'thorough')
    base['plan'] = []
    base['ops'] = base['ops'][:1]
    if base['ops'][0]['op'] != 'run_obj':
        # (the sampled scenario runs the whole module through the runner: sweep its first doctest)
        base['ops'] = [{'op': 'run_obj', 'dt': gen.doctest_ids(base['world'])[0], 'verbose': 0, 'on_error': 'return'}]
    dt = base['ops'][0]['dt']
    modname = base['world']['modules'][0]['name']
    spec = dict((d, x) for d, x, m in W.iter_doctests(base['world']))[dt]
    nominal = {}
    for st in spec['steps']:
        if st.get('exc'):
            nominal[st['pts'][st.get('raise_at', 0)]] = st['exc']

    def faults(p):
        pid = p['pid']
        fs = [{'kind': 'raise', 'exc': 'ValueError', 'msg': 'other ' + pid},
              {'kind': 'raise', 'exc': 'LookupError', 'msg': ''},
              {'kind': 'raise', 'exc': 'mod:%s.SimLocalError' % modname, 'msg': 'other: colon ' + pid, 'depth': 2},
              {'kind': 'raise', 'exc': 'SimError', 'msg': 'xyz...' + pid},
              {'kind': 'raise', 'exc': 'RuntimeError', 'msg': 'other\nmulti ' + pid}]
        if pid in nominal:
            fs.append({'kind': 'noraise'})
            e = nominal[pid]
            if not e['exc'].startswith('doc:'):
                fs.append({'kind': 'raise', 'exc': e['exc'], 'msg': 'other ' + pid})
        return fs
    return [base] + common.single_fault_variants(base, dt, faults)


def check(rec):
    meta = expect.build(rec)
    out = []
    for e in rec['execs']:
        E = e.get('E')
        if E is None:
            continue
        lab = common.exec_label(e)
        v, name, gw = expect.classify(e)
        spec = expect.spec_index(rec['scn']['world'])[e['dtid']][0]
        fstep = None
        if E.fail_step is not None:
            fstep = spec['steps'][E.fail_step]
        for d in expect.cmp_verdict(e, E):
            w = (fstep or {}).get('want') or ''
            if E.verdict == 'passed':
                rule = 'C03.R2'          # a matching expected traceback must pass
            elif E.verdict == 'failed' and E.gotwant is True:
                rule = 'C03.R5'          # traceback want, nothing raised
            elif E.verdict == 'failed' and w.startswith('tb'):
                rule = 'C03.R4' if any('IGNORE_EXCEPTION_DETAIL' in str(x) for x in (fstep.get('inline') or [])) else 'C03.R3'
            elif E.verdict == 'failed' and w:
                rule = 'C03.R6'          # non-traceback want never hides an exception
            else:
                rule = 'C03.R1'
            out.append(common.viol(rule, '%s: %s' % (lab, d), dtid=e['dtid'], k=e['k']))
        # raised again by on_error='raise'
        if E.verdict == 'failed' and 'verdict' not in E.silent and e.get('eff_on_error') == 'raise':
            if e['how'] != 'raised':
                out.append(common.viol('C03.R1', '%s: on_error="raise" but run() returned %s' % (lab, v), dtid=e['dtid'], k=e['k']))
        for d in expect.cmp_hits(e, E):
            out.append(common.viol('C03.R2', '%s: %s' % (lab, d), dtid=e['dtid'], k=e['k']))
        for d in expect.cmp_line(e, E, meta):
            out.append(common.viol('C03.R1', '%s: %s' % (lab, d), dtid=e['dtid'], k=e['k']))
    return out


def stats(rec, viols):
    s = {'fired': common.fired_kinds(rec), 'outcomes': {}, 'probes': {}, 'classes': []}
    idx = expect.spec_index(rec['scn']['world'])
    for e in rec['execs']:
        h = common.how_ended(e)
        s['outcomes'][h] = s['outcomes'].get(h, 0) + 1
        E = e.get('E')
        if E is None:
            continue
        spec = idx[e['dtid']][0]
        for st in spec['steps']:
            w = st.get('want') or ''
            if w.startswith('tb'):
                s['probes']['want_' + w] = s['probes'].get('want_' + w, 0) + 1
            if st.get('exc', {}).get('exc', '').startswith(('doc:', 'mod:')):
                s['probes']['qualified_exception_class'] = s['probes'].get('qualified_exception_class', 0) + 1
        ev = E.verdict if 'verdict' not in E.silent else 'silent'
        fw = ''
        if E.fail_step is not None:
            fw = spec['steps'][E.fail_step].get('want') or 'nowant'
        s['classes'].append('%s|%s|%s|%s' % (ev, fw, '/'.join(sorted(E.exc_names or [])), e.get('eff_on_error')))
        if ev == 'failed' and fw.startswith('tb') and E.gotwant is None:
            s['probes']['mismatching_traceback_want'] = s['probes'].get('mismatching_traceback_want', 0) + 1
        if ev == 'failed' and E.gotwant is True and fw.startswith('tb'):
            s['probes']['traceback_want_nothing_raised'] = s['probes'].get('traceback_want_nothing_raised', 0) + 1
        if ev == 'failed' and fw and not fw.startswith('tb') and E.gotwant is False:
            s['probes']['exception_with_non_traceback_want'] = s['probes'].get('exception_with_non_traceback_want', 0) + 1
        if ev == 'passed' and any((st.get('want') or '').startswith('tb') for i, st in enumerate(spec['steps']) if i in E.executed_steps):
            s['probes']['expected_exception_then_continue'] = s['probes'].get('expected_exception_then_continue', 0) + 1
    planned = rec['scn'].get('plan', [])
    s['faulting'] = bool(planned)
    s['nontrivial'] = common.anything_executed(rec) and (not planned or bool(rec['fired']))
    return s
