"""C01 -- doctest code runs exactly as written: each statement once, in order;
recorded stdout exact.

What the simulation decides: capture/attribution at every peer hit, histories
(order, repetition, verbosity, an earlier doctest replacing sys.stdout),
top-level await under a virtual-time loop.  The grammar x prompt-style axis is
run as workload diversity in the fault-free configuration and compared with a
reference execution of the de-prompted source (DESIGN.md 7.1).
"""
import common
import expect
import gen
import world as W

ID = 'C01'
LEVEL = 'exploration'
N_QUICK = 3500
N_THOROUGH = 120000
ASSUMPTIONS = [
    'the space of Python statements is not what the simulator explores: the step forms of world.py are the workload',
    'layouts the documentation does not fix are not generated (e.g. unprefixed string lines followed by a "..." line)',
]


def generate(rng, tier):
    cfg = gen.default_cfg(p_want=rng.choice([0.2, 0.45, 0.7]), p_tb=0.08, max_steps=rng.choice([4, 7, 10]),
                          p_helper=0.15, p_tabs=rng.choice([0.0, 0.3]), p_ps2=rng.choice([0.2, 0.5, 0.8]))
    cfg['n_modules'] = (1, 3)
    cfg['n_funcs'] = (1, 3)
    cfg['forms'] = list(gen.SIMPLE_FORMS) + ['strdirective', 'tryexc', 'emitop', 'emitnoeol', 'writeout', 'writeout', 'const', 'modsay', 'tqdirective', 'annot', 'emitcr', 'strsemi', 'strsemi']
    if rng.random() < 0.5:
        # names that also exist at module level of the module under test: rebound,
        # shadowed, deleted and read back across part boundaries
        cfg['forms'] += gen.NAMESPACE_FORMS * 2
    if rng.random() < 0.5:
        cfg['forms'] += gen.DECORATED_FORMS
    if rng.random() < 0.5:
        # directives that change nothing the statements depend on still cut the
        # doctest into parts
        cfg['p_dir'] = rng.choice([0.08, 0.2])
        cfg['p_inline_dir'] = rng.choice([0.0, 0.15])
    cfg['p_indent'] = rng.choice([0.0, 0.3, 0.6])
    cfg['p_deep'] = rng.choice([0.0, 0.6])
    cfg['p_header_prose'] = rng.choice([0.0, 0.5])
    if rng.random() < 0.3:
        cfg['forms'] += ['coroexpr']
    flavour = rng.choice(['sync', 'sync', 'async', 'async', 'mixed'])
    if flavour != 'sync':
        cfg['async_forms'] = list(gen.ASYNC_FORMS)
        cfg['p_async'] = 0.5 if flavour == 'async' else 0.25
    world = gen.gen_world(rng, cfg)
    if flavour == 'sync' and cfg['p_indent'] == 0.0 and rng.random() < 0.5:
        # "precisely the statements not disabled by a directive run": regions switched off by a
        # block or inline directive (in every spelling of the prefix), the rest runs as written
        for dtid, dt, mod in W.iter_doctests(world):
            if rng.random() < 0.5:
                gen.add_skips(rng, dt['steps'])
                gen.fix_chunk_starts(dt['steps'])
    for dtid, dt, mod in W.iter_doctests(world):
        for st in dt['steps']:
            if st['form'] in ('tq', 'tqprint') and rng.random() < 0.5:
                st['flush'] = True      # the string's own lines start in the prompt's column
    ids = gen.doctest_ids(world)[:6]
    mods = [m['relpath'] for m in world['modules']]
    ops = []
    in_loop = flavour != 'sync' and rng.random() < 0.15
    for _ in range(rng.randint(1, 8)):
        r = rng.random()
        if r < 0.8:
            op = {'op': 'run_obj', 'dt': rng.choice(ids), 'verbose': rng.choice([0, 0, 1, 2, 3]),
                  'on_error': 'return', 'fresh': rng.random() < 0.2}
            if in_loop and rng.random() < 0.5:
                op['in_loop'] = True
            ops.append(op)
        else:
            ops.append({'op': 'runner', 'target': rng.choice(mods + ['simpkg']), 'command': 'all',
                        'verbose': rng.choice([0, 2, 3])})
    if in_loop:
        for dtid, dt, mod in W.iter_doctests(world):
            for j, st in enumerate(dt['steps']):
                if st['form'] in W.ASYNC_FORMS and j > 0:
                    st['sep'] = 'blank'
    plan = []
    execs = common.predicted_execs(world, ops)
    if rng.random() < 0.4 and execs:
        for _ in range(rng.randint(1, 2)):
            dtid, k, opidx = rng.choice(execs)
            pts = common.points_of(world, dtid)
            if not pts:
                continue
            p = rng.choice(pts)
            r = rng.random()
            if p['form'] in W.ASYNC_FORMS and r < 0.6:
                plan.append({'dt': dtid, 'k': k, 'pid': p['pid'], 'kind': 'sleep', 'delay': rng.choice([0.5, 7, 86400])})
            elif r < 0.5:
                # the run ends at an exception nobody expected: what the code wrote
                # until then is still what must be on record
                plan.append({'dt': dtid, 'k': k, 'pid': p['pid'], 'kind': 'raise',
                             'exc': rng.choice(['ValueError', 'KeyError', 'ZeroDivisionError', 'SimError']),
                             'msg': 'fault ' + p['pid'], 'depth': rng.choice([0, 0, 2])})
            else:
                plan.append({'dt': dtid, 'k': k, 'pid': p['pid'], 'kind': 'swap_stdout'})
    env = {'listing_seed': rng.randint(0, 99)}
    if rng.random() < 0.15:
        # a module that prints while it is being imported: that is not the doctest's output
        plan.append({'import': rng.choice(world['modules'])['name'], 'kind': 'print'})
    if rng.random() < 0.1:
        env['debug_doctest'] = True         # xdoctest's own debug tracing is switched on in this process
    return {'profile': ID, 'world': world, 'ops': ops, 'plan': plan, 'env': env}


N_SWEEPS_THOROUGH = 200
SWEEP_RULE = ('for one sampled doctest that awaits a gather of k <= 4 concurrent awaiters: *every assignment order* of k distinct '
              'virtual delays to the awaiters (k! completion orders), at a sampled verbosity; start, resume and completion order and '
              'the recorded stdout must equal the reference program in each')


def sweep(rng, h):
    import copy
    import itertools
    cfg = gen.default_cfg(p_want=0.4, max_steps=4, p_helper=0.0)
    cfg['n_modules'] = (1, 1)
    cfg['n_funcs'] = (1, 1)
    cfg['p_class'] = 0.0
    cfg['p_moddoc'] = 0.0
    cfg['layouts'] = ['google']
    cfg['max_doctests_per_doc'] = 1
    cfg['async_forms'] = ['await', 'awaitprint', 'asyncwith']
    cfg['p_async'] = 0.3
    world = gen.gen_world(rng, cfg)
    dtid, dt, mod = list(W.iter_doctests(world))[0]
    k = rng.randint(2, 4)
    steps = dt['steps']
    base_i = max(st['i'] for st in steps) + 1
    pfx = 'q0f0d0'
    g = {'i': base_i, 'form': 'gather', 'pts': ['%ss%d%s' % (pfx, base_i, 'abcd'[j]) for j in range(k)],
         'delays': [0] * k, 'ps2': False, 'sep': rng.choice(['none', 'blank'])}
    steps.insert(rng.randint(0, len(steps)), g)
    steps[0]['sep'] = 'none'
    gen.fix_chunk_starts(steps)
    base = {'profile': ID, 'world': world, 'plan': [], 'env': {'listing_seed': rng.randint(0, 99)},
            'ops': [{'op': 'run_obj', 'dt': dtid, 'verbose': rng.choice([0, 2, 3]), 'on_error': 'return'}]}
    delays = [0, 0.001, 2.5, 3600][:k]
    out = []
    for perm in itertools.permutations(delays):
        v = copy.deepcopy(base)
        for d2, spec, m2 in W.iter_doctests(v['world']):
            for st in spec['steps']:
                if st['form'] == 'gather' and st['i'] == base_i:
                    st['delays'] = list(perm)
        out.append(v)
    return out


def check(rec):
    meta = expect.build(rec)
    out = []
    scn = rec['scn']
    collected = set()
    for o in rec['ops']:
        pass
    for e in rec['execs']:
        E = e.get('E')
        lab = common.exec_label(e)
        for rule, d in e.get('peer_violations', []):
            out.append(common.viol(rule, '%s: %s' % (lab, d), dtid=e['dtid'], k=e['k']))
        if E is None:
            continue
        for d in expect.cmp_hits(e, E):
            rule = 'C01.R5' if any(st['form'] in W.ASYNC_FORMS for st in expect.spec_index(scn['world'])[e['dtid']][0]['steps']) and '~' in d else 'C01.R1'
            out.append(common.viol(rule, '%s: %s' % (lab, d), dtid=e['dtid'], k=e['k']))
        for d in expect.cmp_bindings(e, E):
            out.append(common.viol('C01.R2', '%s: %s' % (lab, d), dtid=e['dtid'], k=e['k']))
        for d in expect.cmp_stdout(e, E):
            out.append(common.viol('C01.R4', '%s: %s' % (lab, d), dtid=e['dtid'], k=e['k']))
        for d in expect.cmp_verdict(e, E):
            out.append(common.viol('C01.R1', '%s: %s' % (lab, d), dtid=e['dtid'], k=e['k']))
        # R6: nothing minted for another doctest / execution in this log
        own = set()
        text = ''.join(t for t in (e.get('logged_stdout') or []) if t)
        for st in expect.spec_index(scn['world'])[e['dtid']][0]['steps']:
            for p in st.get('pts', []):
                own.add(p)
        import re
        for tokpid in re.findall(r'(?:Tk|Wr)(q\w+?s\d+[a-d])(?:n\d+)?z', text):
            if tokpid not in own:
                out.append(common.viol('C01.R6', '%s: recorded stdout contains a token of another doctest: %s' % (lab, tokpid),
                                       dtid=e['dtid'], k=e['k']))
                break
    # a well-formed generated doctest that yields no runnable example = its statements did not run
    predicted = common.predicted_execs(scn['world'], scn['ops'])
    for o in rec['ops']:
        op = scn['ops'][o['op']]
        if o['how'] != 'returned':
            if o.get('exc_is_exception'):
                out.append(common.viol('C01.R1', 'op%d %s raised %s: %s' % (o['op'], op['op'], o['exc'], o.get('exc_msg', '')[:200]), op=o['op']))
            continue
        if op['op'] == 'run_obj' and (o['value'] or {}).get('missing'):
            out.append(common.viol('C01.R1', 'op%d: doctest %s was not collected: its statements never run' % (o['op'], op['dt']), op=o['op']))
        if op['op'] == 'runner':
            want_ids = sorted(d for d, k, oi in predicted if oi == o['op'])
            ran = sorted(e['dtid'] for e in rec['execs'] if e['op'] == o['op'])
            if ran != want_ids:
                out.append(common.viol('C01.R1', 'op%d runner: doctests run %s, written %s' % (o['op'], ran, want_ids), op=o['op']))
    return out


def stats(rec, viols):
    s = {'fired': common.fired_kinds(rec), 'outcomes': {}, 'probes': {}, 'classes': []}
    scn = rec['scn']
    idx = expect.spec_index(scn['world'])
    seen = {}
    for e in rec['execs']:
        h = common.how_ended(e)
        s['outcomes'][h] = s['outcomes'].get(h, 0) + 1
        E = e.get('E')
        if E is None:
            continue
        spec = idx[e['dtid']][0]
        forms = sorted(set(st['form'] for st in spec['steps']))
        has_async = any(f in W.ASYNC_FORMS for f in forms)
        tee = (e.get('eff_verbose') or 0) >= 2
        s['classes'].append('%s|%s|%s|k%d' % ('+'.join(forms)[:60], 'tee' if tee else 'quiet', 'async' if has_async else 'sync', min(e['k'], 2)))
        if has_async:
            s['probes']['executions_with_top_level_await'] = s['probes'].get('executions_with_top_level_await', 0) + 1
        if any(st['form'] == 'gather' for st in spec['steps']):
            s['probes']['gather_of_concurrent_awaiters'] = s['probes'].get('gather_of_concurrent_awaiters', 0) + 1
        if e['k'] > 0:
            s['probes']['doctest_executed_again'] = s['probes'].get('doctest_executed_again', 0) + 1
        if scn['ops'][e['op']].get('in_loop'):
            s['probes']['caller_inside_running_loop'] = s['probes'].get('caller_inside_running_loop', 0) + 1
        for st in spec['steps']:
            if st['form'] in ('tq', 'tqprint'):
                s['probes']['unprefixed_string_lines'] = s['probes'].get('unprefixed_string_lines', 0) + 1
                break
    for dtid, dt, mod in W.iter_doctests(scn['world']):
        pass
    for m in scn['world']['modules']:
        for it in m['items']:
            docs = [it.get('doc')] + [mm.get('doc') for mm in it.get('methods', [])]
            if any(d and d.get('tabs') for d in docs):
                s['probes']['tab_indented_docstring'] = s['probes'].get('tab_indented_docstring', 0) + 1
    planned = scn.get('plan', [])
    s['faulting'] = bool(planned)
    s['nontrivial'] = common.anything_executed(rec)
    return s
